//@ expect: fail:E0308
//@ rule: WITNESS
//@ what: negative control: a string must NOT eps-deserialize to an owned String
use epserde::prelude::*;
pub fn string<'a>(x: DeserType<'a, String>) -> String { x }
