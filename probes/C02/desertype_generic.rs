//@ expect: pass
//@ rule: WITNESS
//@ what: the documented substitution, proved by rustc for all instantiations: sequences of zero-copy elements and strings become borrowed slices, zero-copy arrays/tuples become references, deep sequences are rebuilt, primitives stay values
use epserde::prelude::*;
use epserde::deser::DeserializeInner;
use core::ops::{Bound, ControlFlow, Range, RangeTo};
use core::marker::PhantomData;
pub fn vec_zero<'a, Z: ZeroCopy + DeserializeInner>(x: DeserType<'a, Vec<Z>>) -> &'a [Z] { x }
pub fn box_zero<'a, Z: ZeroCopy + DeserializeInner>(x: DeserType<'a, Box<[Z]>>) -> &'a [Z] { x }
pub fn arr_zero<'a, Z: ZeroCopy + DeserializeInner, const N: usize>(x: DeserType<'a, [Z; N]>) -> &'a [Z; N] { x }
pub fn vec_deep<'a, D: DeepCopy + DeserializeInner>(x: DeserType<'a, Vec<D>>) -> Vec<DeserType<'a, D>> { x }
pub fn box_deep<'a, D: DeepCopy + DeserializeInner>(x: DeserType<'a, Box<[D]>>) -> Box<[DeserType<'a, D>]> { x }
pub fn arr_deep<'a, D: DeepCopy + DeserializeInner, const N: usize>(x: DeserType<'a, [D; N]>) -> [DeserType<'a, D>; N] { x }
pub fn string<'a>(x: DeserType<'a, String>) -> &'a str { x }
pub fn boxstr<'a>(x: DeserType<'a, Box<str>>) -> &'a str { x }
pub fn tuple1<'a, Z: ZeroCopy + TypeHash + AlignHash>(x: DeserType<'a, (Z,)>) -> &'a (Z,) { x }
pub fn tuple3<'a, Z: ZeroCopy + TypeHash + AlignHash>(x: DeserType<'a, (Z, Z, Z)>) -> &'a (Z, Z, Z) { x }
pub fn option<'a, T: DeserializeInner>(x: DeserType<'a, Option<T>>) -> Option<DeserType<'a, T>> { x }
pub fn bound<'a, T: DeserializeInner>(x: DeserType<'a, Bound<T>>) -> Bound<DeserType<'a, T>> { x }
pub fn cflow<'a, B: DeserializeInner, C: DeserializeInner>(x: DeserType<'a, ControlFlow<B, C>>) -> ControlFlow<DeserType<'a, B>, DeserType<'a, C>> { x }
pub fn range<'a, I: ZeroCopy + DeserializeInner>(x: DeserType<'a, Range<I>>) -> Range<DeserType<'a, I>> { x }
pub fn rangeto<'a, I: ZeroCopy + DeserializeInner>(x: DeserType<'a, RangeTo<I>>) -> RangeTo<DeserType<'a, I>> { x }
pub fn prim_u64<'a>(x: DeserType<'a, u64>) -> u64 { x }
pub fn prim_f32<'a>(x: DeserType<'a, f32>) -> f32 { x }
pub fn prim_bool<'a>(x: DeserType<'a, bool>) -> bool { x }
pub fn prim_char<'a>(x: DeserType<'a, char>) -> char { x }
pub fn unit<'a>(x: DeserType<'a, ()>) { x }
pub fn phantom<'a, T>(x: DeserType<'a, PhantomData<T>>) -> PhantomData<T> { x }
pub fn nested<'a>(x: DeserType<'a, Vec<Vec<u32>>>) -> Vec<&'a [u32]> { x }
pub fn nested2<'a>(x: DeserType<'a, Vec<String>>) -> Vec<&'a str> { x }
pub fn nested3<'a>(x: DeserType<'a, Option<Vec<[u16; 4]>>>) -> Option<&'a [[u16; 4]]> { x }
