//@ expect: fail:E0308
//@ rule: WITNESS
//@ what: negative control of the substitution witnesses: a vector of zero-copy elements must NOT eps-deserialize to an owned vector
use epserde::prelude::*;
use epserde::deser::DeserializeInner;
pub fn vec_zero<'a, Z: ZeroCopy + DeserializeInner>(x: DeserType<'a, Vec<Z>>) -> Vec<Z> { x }
