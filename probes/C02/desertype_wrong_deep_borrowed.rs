//@ expect: fail:E0308
//@ rule: WITNESS
//@ what: negative control: a vector of deep-copy elements must NOT eps-deserialize to a borrowed slice
use epserde::prelude::*;
use epserde::deser::DeserializeInner;
pub fn vec_deep<'a, D: DeepCopy + DeserializeInner>(x: DeserType<'a, Vec<D>>) -> &'a [D] { x }
