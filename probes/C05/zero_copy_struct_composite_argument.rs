//@ expect: pass
//@ rule: COMPILE
//@ what: a generic zero-copy struct instantiated with a composite zero-copy argument (another zero-copy struct, an array, a tuple) must be deserializable
use epserde::prelude::*;
#[derive(Epserde, Debug, Clone, Copy, PartialEq)]
#[repr(C)]
#[zero_copy]
pub struct Z { pub a: u32 }
#[derive(Epserde, Debug, Clone, Copy, PartialEq)]
#[repr(C)]
#[zero_copy]
pub struct W<A: ZeroCopy> { pub a: A }
pub fn f(x: &[u8]) -> u32 {
    let w = <W<Z>>::deserialize_eps(x).unwrap();
    w.a.a
}
pub fn g(x: &[u8]) -> u16 {
    let w = <W<[u16; 3]>>::deserialize_eps(x).unwrap();
    w.a[0]
}
