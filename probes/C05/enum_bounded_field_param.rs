//@ expect: pass
//@ rule: COMPILE
//@ what: an inline bound on a type parameter that is the type of a variant field (deep-copy enum)
use epserde::prelude::*;
#[derive(Epserde, Debug, Clone, PartialEq)]
pub enum E<T: Clone> { A, B(T) }
