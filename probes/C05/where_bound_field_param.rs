//@ expect: pass
//@ rule: COMPILE
//@ what: a where-clause bound on a type parameter that is the type of a field (struct)
use epserde::prelude::*;
#[derive(Epserde, Debug, Clone, PartialEq)]
pub struct W<A> where A: Clone { pub a: A, pub n: u8 }
