//@ expect: pass
//@ rule: COMPILE
//@ what: a type parameter that is the type of one field and is also mentioned inside the type of another field (deep-copy struct)
use epserde::prelude::*;
#[derive(Epserde, Debug, Clone, PartialEq)]
pub struct Inner<A> { pub id: isize, pub data: A }
#[derive(Epserde, Debug, Clone, PartialEq)]
pub struct NestBoth<A: DeepCopy + 'static> { pub inner: Inner<Vec<A>>, pub bare: A }
