//@ expect: pass
//@ rule: COMPILE
//@ what: an inline bound on a type parameter that is the type of a field (struct) -- supported
use epserde::prelude::*;
#[derive(Epserde, Debug, Clone, PartialEq)]
pub struct S<A: Clone + core::fmt::Debug> { pub a: A, pub n: u8 }
