//@ expect: pass
//@ rule: COMPILE
//@ what: a zero-copy enum with a (necessarily bounded) type parameter
use epserde::prelude::*;
#[derive(Epserde, Debug, Clone, Copy, PartialEq)]
#[repr(C)]
#[zero_copy]
pub enum E<T: ZeroCopy> { A, B(T) }
