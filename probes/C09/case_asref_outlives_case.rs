//@ expect: fail:E0597,E0505
//@ rule: WITNESS
//@ what: a reference obtained through AsRef of a MemCase is used after the case is dropped
use epserde::prelude::*;
pub fn f() -> usize {
    let r: &Vec<u64>;
    {
        let case = MemCase::encase(vec![1u64, 2, 3]);
        r = case.as_ref();
    }
    r.len()
}
