use epserde::prelude::*;
pub fn f(case: MemCase<Vec<u64>>) -> usize {
    case.len()
}
