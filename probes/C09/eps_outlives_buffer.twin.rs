use epserde::prelude::*;
pub fn f() -> usize {
    let buf: Vec<u8> = vec![0u8; 128];
    let r = <Vec<u64>>::deserialize_eps(&buf).unwrap();
    r.len()
}
