use epserde::prelude::*;
pub fn f() -> usize {
    let case = MemCase::encase(vec![1u64, 2, 3]);
    let r: &Vec<u64> = &*case;
    r.len()
}
