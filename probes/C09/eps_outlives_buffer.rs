//@ expect: fail:E0597,E0505,E0515
//@ rule: WITNESS
//@ what: the result of deserialize_eps is used after the buffer it borrows from is gone
use epserde::prelude::*;
pub fn f() -> usize {
    let r;
    {
        let buf: Vec<u8> = vec![0u8; 128];
        r = <Vec<u64>>::deserialize_eps(&buf).unwrap();
    }
    r.len()
}
