use epserde::prelude::*;
pub fn f(p: &std::path::Path) -> u64 {
    let case = <Vec<u64>>::load_mem(p).unwrap();
    let s: &[u64] = *case;
    s[0]
}
