//@ expect: fail
//@ rule: WITNESS
//@ what: a 'static slice is copied out of a memory-mapped MemCase through AsRef and read after the mapping is gone
use epserde::prelude::*;
pub fn f(p: &std::path::Path) -> u64 {
    let s: &'static [u64];
    {
        let case = <Vec<u64>>::mmap(p, Flags::empty()).unwrap();
        s = *case.as_ref();
    }
    s[0]
}
