//@ expect: fail:E0616,E0603,E0532
//@ rule: WITNESS
//@ what: the structure is moved out of a MemCase by destructuring its fields from outside the crate
use epserde::prelude::*;
pub fn f(case: MemCase<Vec<u64>>) -> Vec<u64> {
    case.0
}
