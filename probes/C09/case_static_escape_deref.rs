//@ expect: fail
//@ rule: WITNESS
//@ what: a 'static slice is copied out of a loaded MemCase through Deref and read after the case (and its memory) is dropped
use epserde::prelude::*;
pub fn f(p: &std::path::Path) -> u64 {
    let s: &'static [u64];
    {
        let case = <Vec<u64>>::load_mem(p).unwrap();
        s = *case;
    }
    s[0]
}
