use epserde::prelude::*;
#[derive(Epserde, Clone, Copy)]
#[repr(C)]
#[zero_copy]
pub enum E { A, B { x: u8, s: u16 } }
