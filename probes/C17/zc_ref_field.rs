//@ expect: fail
//@ rule: WITNESS
//@ what: a zero_copy struct holding a reference (Copy, but not zero-copy)
use epserde::prelude::*;
#[derive(Epserde, Clone, Copy)]
#[repr(C)]
#[zero_copy]
pub struct S { pub r: &'static [u8] }
