//@ expect: fail
//@ rule: WITNESS
//@ what: a zero_copy struct with a String field
use epserde::prelude::*;
#[derive(Epserde)]
#[repr(C)]
#[zero_copy]
pub struct S { pub s: String }
