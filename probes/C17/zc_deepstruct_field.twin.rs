use epserde::prelude::*;
#[derive(Epserde, Clone, Copy)]
#[repr(C)]
#[zero_copy]
pub struct D { pub a: usize }
#[derive(Epserde, Clone, Copy)]
#[repr(C)]
#[zero_copy]
pub struct S { pub d: D }
