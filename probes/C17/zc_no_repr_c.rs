//@ expect: fail
//@ rule: WITNESS
//@ what: zero_copy without repr(C)
use epserde::prelude::*;
#[derive(Epserde, Clone, Copy)]
#[zero_copy]
pub struct S { pub a: usize }
