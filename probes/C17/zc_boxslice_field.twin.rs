use epserde::prelude::*;
#[derive(Epserde, Clone, Copy)]
#[repr(C)]
#[zero_copy]
pub struct S(pub u32, pub [u32; 2]);
