//@ expect: fail
//@ rule: WITNESS
//@ what: a zero_copy struct whose field is a deep-copy derived struct (Copy)
use epserde::prelude::*;
#[derive(Epserde, Clone, Copy)]
pub struct D { pub a: usize }
#[derive(Epserde, Clone, Copy)]
#[repr(C)]
#[zero_copy]
pub struct S { pub d: D }
