//@ expect: fail:E0277
//@ rule: WITNESS
//@ what: Range / RangeFrom / RangeInclusive are not Copy, hence never ZeroCopy: they cannot reach a raw-image writer
use epserde::prelude::*;
fn is_zero_copy<T: ZeroCopy>() {}
pub fn f() {
    is_zero_copy::<core::ops::Range<u32>>();
}
