//@ expect: fail
//@ rule: WITNESS
//@ what: a zero_copy tuple struct with a boxed slice field
use epserde::prelude::*;
#[derive(Epserde)]
#[repr(C)]
#[zero_copy]
pub struct S(pub u32, pub Box<[u32]>);
