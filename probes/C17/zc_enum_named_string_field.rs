//@ expect: fail
//@ rule: WITNESS
//@ what: a zero_copy enum with a String in a struct variant
use epserde::prelude::*;
#[derive(Epserde)]
#[repr(C)]
#[zero_copy]
pub enum E { A, B { x: u8, s: String } }
