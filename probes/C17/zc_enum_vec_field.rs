//@ expect: fail
//@ rule: WITNESS
//@ what: a zero_copy enum with a Vec payload
use epserde::prelude::*;
#[derive(Epserde)]
#[repr(C)]
#[zero_copy]
pub enum E { A, B(Vec<u8>) }
