//@ expect: fail
//@ rule: WITNESS
//@ what: a zero_copy enum without repr(C)
use epserde::prelude::*;
#[derive(Epserde, Clone, Copy)]
#[zero_copy]
pub enum E { A, B(u8) }
