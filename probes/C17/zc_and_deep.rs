//@ expect: fail
//@ rule: WITNESS
//@ what: both zero_copy and deep_copy
use epserde::prelude::*;
#[derive(Epserde, Clone, Copy)]
#[repr(C)]
#[zero_copy]
#[deep_copy]
pub struct S { pub a: usize }
