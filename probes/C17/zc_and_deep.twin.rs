use epserde::prelude::*;
#[derive(Epserde, Clone, Copy)]
#[repr(C)]
#[deep_copy]
pub struct S { pub a: usize }
