//@ expect: fail
//@ rule: WITNESS
//@ what: zero_copy with repr(C, align(8)) in one attribute (not recognised as repr(C))
use epserde::prelude::*;
#[derive(Epserde, Clone, Copy)]
#[repr(C, align(8))]
#[zero_copy]
pub struct S { pub a: usize }
