//@ expect: fail
//@ rule: WITNESS
//@ what: a zero_copy struct with a Vec field
use epserde::prelude::*;
#[derive(Epserde)]
#[repr(C)]
#[zero_copy]
pub struct S { pub a: usize, pub v: Vec<u8> }
