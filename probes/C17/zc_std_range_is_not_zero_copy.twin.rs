use epserde::prelude::*;
fn is_zero_copy<T: ZeroCopy>() {}
pub fn f() {
    is_zero_copy::<core::ops::RangeTo<u32>>();
}
