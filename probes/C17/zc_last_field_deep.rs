//@ expect: fail
//@ rule: WITNESS
//@ what: a zero_copy struct whose LAST of five fields is not zero-copy
use epserde::prelude::*;
#[derive(Epserde)]
#[repr(C)]
#[zero_copy]
pub struct S { pub a: u8, pub b: u16, pub c: u32, pub d: u64, pub e: Vec<u8> }
