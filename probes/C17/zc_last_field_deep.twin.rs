use epserde::prelude::*;
#[derive(Epserde, Clone, Copy)]
#[repr(C)]
#[zero_copy]
pub struct S { pub a: u8, pub b: u16, pub c: u32, pub d: u64, pub e: u128 }
