//@ expect: pass
//@ rule: WITNESS
//@ what: RangeTo / RangeToInclusive over a zero-copy index are ZeroCopy (they are Copy): ZC-PARAM treats them as raw-image containers
use epserde::prelude::*;
fn is_zero_copy<T: ZeroCopy>() {}
pub fn f() {
    is_zero_copy::<core::ops::RangeTo<u32>>();
    is_zero_copy::<core::ops::RangeToInclusive<[u16; 3]>>();
}
