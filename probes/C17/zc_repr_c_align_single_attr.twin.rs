use epserde::prelude::*;
#[derive(Epserde, Clone, Copy)]
#[repr(C)]
#[repr(align(8))]
#[zero_copy]
pub struct S { pub a: usize }
