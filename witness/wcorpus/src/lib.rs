//! Fixed (quick) corpus of derived types: one definition per production and per
//! interaction the derive macro distinguishes (DESIGN.md Appendix G).
#![allow(dead_code)]
#![allow(clippy::all)]
use epserde::prelude::*;
use epserde::TypeInfo;
use epserde::deser::DeserializeInner;
use epserde::ser::SerializeInner;
use std::marker::PhantomData;

// ---------------------------------------------------------------- F1 structs, no parameters
#[derive(Epserde, Debug, Clone, PartialEq)]
pub struct Named2 { pub a: u32, pub b: Vec<u8> }
#[derive(Epserde, Debug, Clone, PartialEq)]
pub struct Tuple2(pub u64, pub String);
#[derive(Epserde, Debug, Clone, PartialEq)]
pub struct Unit0;
#[derive(Epserde, Debug, Clone, Copy, PartialEq)]
#[repr(C)]
#[zero_copy]
pub struct ZNamed { pub a: u32, pub b: u8 }
#[derive(Epserde, Debug, Clone, Copy, PartialEq)]
#[repr(C)]
#[zero_copy]
pub struct ZTuple(pub u16, pub u16, pub u64);
#[derive(Epserde, Debug, Clone, Copy, PartialEq)]
#[repr(C)]
#[zero_copy]
pub struct ZUnit;
#[derive(Epserde, Debug, Clone, PartialEq)]
#[deep_copy]
pub struct Plain { pub a: usize, pub b: usize }
#[derive(Epserde, Debug, Clone, Copy, PartialEq)]
#[repr(C)]
#[zero_copy]
pub struct ZNested { pub h: ZNamed, pub t: [u32; 3] }
#[derive(Epserde, Debug, Clone, PartialEq)]
pub struct Nest { pub z: ZNamed, pub v: Vec<ZNamed>, pub o: Option<Named2> }
#[derive(Epserde, Debug, Clone, Copy, PartialEq)]
#[repr(C)]
#[repr(align(16))]
#[zero_copy]
pub struct ZAlign16 { pub u: u32 }
#[derive(Epserde, Debug, Clone, Copy, PartialEq)]
#[repr(C)]
#[repr(align(8))]
#[repr(align(32))]
#[zero_copy]
pub struct ZAlignMulti { pub u: u8 }

// ---------------------------------------------------------------- F2 structs, type parameters
#[derive(Epserde, Debug, Clone, PartialEq)]
pub struct P1<A> { pub id: isize, pub data: A }
#[derive(Epserde, Debug, Clone, PartialEq)]
pub struct P2<A, B> { pub a: A, pub b: B, pub t: isize }
#[derive(Epserde, Debug, Clone, PartialEq)]
pub struct PNew<A>(pub A);
#[derive(Epserde, Debug, Clone, PartialEq)]
pub struct Inner<A: DeepCopy + 'static>(pub Vec<A>);
#[derive(Epserde, Debug, Clone, PartialEq)]
pub struct InnerArr<A: ZeroCopy + 'static> { pub x: [A; 2], pub o: Option<A> }
#[derive(Epserde, Debug, Clone, PartialEq)]
pub struct Mixed<A, B: DeepCopy + 'static> { pub f: A, pub g: Vec<B> }
#[derive(Epserde, Debug, Clone, PartialEq)]
pub struct Ph<A, P> { pub a: A, pub m: PhantomData<P>, pub m2: PhantomData<()> }
#[derive(Epserde, Debug, Clone, Copy, PartialEq)]
#[repr(C)]
#[zero_copy]
pub struct ZP<A: ZeroCopy> { pub data: A }
#[derive(Epserde, Debug, Clone, Copy, PartialEq)]
#[repr(C)]
#[zero_copy]
pub struct ZPh<A: ZeroCopy + Default> { pub a: usize, pub m: PhantomData<A> }
#[derive(Epserde, Debug, Clone, PartialEq)]
pub struct Bounded<A: PartialEq + core::fmt::Debug = usize> { pub a: A }
#[derive(Epserde, Debug, Clone, PartialEq)]
pub struct Where<A> where A: Clone { pub v: Vec<A>, pub n: u8 }
#[derive(Epserde, Debug, Clone, PartialEq)]
pub struct Holder { pub p: P1<Vec<u16>>, pub q: P2<String, Box<[u32]>> }
#[derive(Epserde, Debug, Clone, PartialEq)]
pub struct Outer<A> { pub inner: A, pub k: u8 }

// ---------------------------------------------------------------- F3 const parameters
#[derive(Epserde, Debug, Clone, PartialEq)]
pub struct C1<const N: usize> { pub a: [u32; N] }
#[derive(Epserde, Debug, Clone, PartialEq)]
pub struct C2<A = usize, const Q: usize = 3> { pub a: A, pub b: [i32; Q] }
#[derive(Epserde, Debug, Clone, Copy, PartialEq)]
#[repr(C)]
#[zero_copy]
pub struct ZC<const N: usize> { pub a: [u8; N] }

// ---------------------------------------------------------------- F4 enums
#[derive(Epserde, Debug, Clone, PartialEq)]
pub enum EUnit { A, B, C }
#[derive(Epserde, Debug, Clone, PartialEq)]
pub enum ETup { A(u8), B(u16, Vec<u8>) }
#[derive(Epserde, Debug, Clone, PartialEq)]
pub enum ENamed { A { x: u8 }, B { y: String, z: u32 } }
#[derive(Epserde, Debug, Clone, PartialEq)]
pub enum EMixed<T = Vec<usize>> { A, B(T), C { x: T, k: u8 } }
#[derive(Epserde, Debug, Clone, PartialEq)]
pub enum E1 { Only(u64) }
#[derive(Epserde, Debug, Clone, PartialEq)]
pub enum E9 { V0, V1(u8), V2, V3(u16), V4, V5(u32), V6, V7(u64), V8 { a: i8, b: i16 } }
#[derive(Epserde, Debug, Clone, Copy, PartialEq)]
#[repr(C)]
#[zero_copy]
pub enum ZE { A, B(u32), C { x: u16, y: u16 } }
#[derive(Epserde, Debug, Clone, PartialEq)]
#[deep_copy]
pub enum EDd { A(usize) }

// ---------------------------------------------------------------- F5 TypeInfo only
#[derive(TypeInfo, Debug, Clone, PartialEq, Default)]
pub struct NotSer;
#[derive(TypeInfo, Debug, Clone, Copy, PartialEq)]
#[repr(C)]
#[zero_copy]
pub struct TZ { pub a: u8 }
#[derive(Epserde, Debug, Clone, PartialEq)]
pub struct UsesPh { pub a: usize, pub b: PhantomData<NotSer> }

// ---------------------------------------------------------------- closed instantiations (layouts, normalised associated types)
pub type TNamed2 = Named2;
pub type TZNamed = ZNamed;
pub type TZTuple = ZTuple;
pub type TZUnit = ZUnit;
pub type TZNested = ZNested;
pub type TZAlign16 = ZAlign16;
pub type TZAlignMulti = ZAlignMulti;
pub type TZPu64 = ZP<u64>;
pub type TZPhu8 = ZPh<u8>;
pub type TZC3 = ZC<3>;
pub type TZE = ZE;
pub type TTZ = TZ;

pub type DNamed2 = <Named2 as DeserializeInner>::DeserType<'static>;
pub type DTuple2 = <Tuple2 as DeserializeInner>::DeserType<'static>;
pub type DZNamed = <ZNamed as DeserializeInner>::DeserType<'static>;
pub type DNest = <Nest as DeserializeInner>::DeserType<'static>;
pub type DP1Vec = <P1<Vec<u64>> as DeserializeInner>::DeserType<'static>;
pub type DP1String = <P1<String> as DeserializeInner>::DeserType<'static>;
pub type DP2 = <P2<Vec<ZNamed>, String> as DeserializeInner>::DeserType<'static>;
pub type DPNew = <PNew<Box<[u8]>> as DeserializeInner>::DeserType<'static>;
pub type DInner = <Inner<String> as DeserializeInner>::DeserType<'static>;
pub type DInnerArr = <InnerArr<u32> as DeserializeInner>::DeserType<'static>;
pub type DMixed = <Mixed<Vec<u8>, String> as DeserializeInner>::DeserType<'static>;
pub type DPh = <Ph<Vec<u8>, NotSer> as DeserializeInner>::DeserType<'static>;
pub type DZP = <ZP<u64> as DeserializeInner>::DeserType<'static>;
pub type DHolder = <Holder as DeserializeInner>::DeserType<'static>;
pub type DOuter = <Outer<P1<Vec<u64>>> as DeserializeInner>::DeserType<'static>;
pub type DC1 = <C1<4> as DeserializeInner>::DeserType<'static>;
pub type DC2 = <C2<Vec<u8>, 2> as DeserializeInner>::DeserType<'static>;
pub type DEMixed = <EMixed<Vec<usize>> as DeserializeInner>::DeserType<'static>;
pub type DETup = <ETup as DeserializeInner>::DeserType<'static>;
pub type DZE = <ZE as DeserializeInner>::DeserType<'static>;

pub type SP1Slice = <P1<&'static [i32]> as SerializeInner>::SerType;
pub type SP1Iter = <P1<SerIter<'static, i32, core::slice::Iter<'static, i32>>> as SerializeInner>::SerType;
pub type SP2Views = <P2<&'static [ZNamed], Vec<String>> as SerializeInner>::SerType;
pub type SNamed2 = <Named2 as SerializeInner>::SerType;
pub type SSlice = <&'static [u16] as SerializeInner>::SerType;
pub type SIter = <SerIter<'static, u16, core::slice::Iter<'static, u16>> as SerializeInner>::SerType;
pub type SInner = <Inner<String> as SerializeInner>::SerType;

// const-evaluated by the compiler
pub const ZC_ZNAMED: bool = <ZNamed as SerializeInner>::IS_ZERO_COPY;
pub const ZC_NAMED2: bool = <Named2 as SerializeInner>::IS_ZERO_COPY;
pub const ZC_PLAIN: bool = <Plain as SerializeInner>::IS_ZERO_COPY;
pub const ZC_ZNESTED: bool = <ZNested as SerializeInner>::IS_ZERO_COPY;
pub const ZC_ZE: bool = <ZE as SerializeInner>::IS_ZERO_COPY;
pub const ZC_ZP: bool = <ZP<u64> as SerializeInner>::IS_ZERO_COPY;
pub const MM_PLAIN: bool = <Plain as SerializeInner>::ZERO_COPY_MISMATCH;
pub const K_MAGIC: u64 = epserde::MAGIC;
pub const K_MAGIC_REV: u64 = epserde::MAGIC_REV;
pub const K_VERSION_MAJOR: u16 = epserde::VERSION.0;
pub const K_VERSION_MINOR: u16 = epserde::VERSION.1;

// ---------------------------------------------------------------- C17: a hand-written type that declares itself zero-copy
// (CopyType = Zero, Copy, MaxSizeOf) but whose IS_ZERO_COPY is false; and a derived zero-copy struct holding it.
#[derive(Debug, Clone, Copy, PartialEq)]
#[repr(C)]
pub struct FakeZero { pub p: &'static [u8] }
impl epserde::traits::CopyType for FakeZero { type Copy = epserde::traits::Zero; }
impl epserde::traits::MaxSizeOf for FakeZero { fn max_size_of() -> usize { core::mem::align_of::<Self>() } }
impl epserde::traits::TypeHash for FakeZero { fn type_hash(hasher: &mut impl core::hash::Hasher) { use core::hash::Hash; "FakeZero".hash(hasher); } }
impl epserde::traits::AlignHash for FakeZero { fn align_hash(_h: &mut impl core::hash::Hasher, _o: &mut usize) {} }
impl SerializeInner for FakeZero {
    type SerType = Self;
    const IS_ZERO_COPY: bool = false;
    const ZERO_COPY_MISMATCH: bool = false;
    fn _serialize_inner(&self, backend: &mut impl epserde::ser::WriteWithNames) -> epserde::ser::Result<()> {
        epserde::ser::helpers::serialize_zero(backend, self)
    }
}
impl DeserializeInner for FakeZero {
    type DeserType<'a> = &'a FakeZero;
    fn _deserialize_full_inner(backend: &mut impl epserde::deser::ReadWithPos) -> epserde::deser::Result<Self> {
        epserde::deser::helpers::deserialize_full_zero::<Self>(backend)
    }
    fn _deserialize_eps_inner<'a>(backend: &mut epserde::deser::SliceWithPos<'a>) -> epserde::deser::Result<Self::DeserType<'a>> {
        epserde::deser::helpers::deserialize_eps_zero::<Self>(backend)
    }
}
#[derive(Epserde, Debug, Clone, Copy, PartialEq)]
#[repr(C)]
#[zero_copy]
pub struct HoldsFake { pub k: u32, pub f: FakeZero }
pub const ZC_FAKEZERO: bool = <FakeZero as SerializeInner>::IS_ZERO_COPY;
pub const ZC_HOLDSFAKE: bool = <HoldsFake as SerializeInner>::IS_ZERO_COPY;
pub const ZC_VEC_FAKE: bool = <Vec<FakeZero> as SerializeInner>::IS_ZERO_COPY;
pub const ZC_ARR_FAKE: bool = <[FakeZero; 2] as SerializeInner>::IS_ZERO_COPY;
pub const ZC_ZNAMED_ARR: bool = <[ZNamed; 2] as SerializeInner>::IS_ZERO_COPY;
pub const ZC_TUPLE_FAKE: bool = <(FakeZero, FakeZero) as SerializeInner>::IS_ZERO_COPY;
pub const ZC_TUPLE_ZNAMED: bool = <(ZNamed, ZNamed, ZNamed) as SerializeInner>::IS_ZERO_COPY;

// ---------------------------------------------------------------- parameter names / order variations (declaration order is not alphabetical)
#[derive(Epserde, Debug, Clone, PartialEq)]
pub struct PairTA<T, A> { pub first: T, pub second: A }
#[derive(Epserde, Debug, Clone, PartialEq)]
pub struct TripleKNVB<K, const N: usize, V, B>(pub K, pub [u8; N], pub V, pub B);
#[derive(Epserde, Debug, Clone, PartialEq)]
pub enum EZY<Z, Y> { First(Z), Second { y: Y, z: Z }, Third }
#[derive(Epserde, Debug, Clone, PartialEq)]
pub struct RevParams<Zeta, Mid, Alpha> { pub a: Alpha, pub m: Vec<Mid>, pub z: Zeta }
pub type DPairTA = <PairTA<Vec<u32>, Vec<u8>> as DeserializeInner>::DeserType<'static>;
pub type DTripleKNVB = <TripleKNVB<Vec<u64>, 2, Vec<u16>, String> as DeserializeInner>::DeserType<'static>;
pub type DEZY = <EZY<Vec<u32>, String> as DeserializeInner>::DeserType<'static>;
pub type DRevParams = <RevParams<Vec<u8>, u16, String> as DeserializeInner>::DeserType<'static>;
pub type SPairTA = <PairTA<&'static [u32], Vec<u8>> as SerializeInner>::SerType;
pub type SRevParams = <RevParams<&'static [u8], u16, String> as SerializeInner>::SerType;
// every field-typed parameter holds a view: each one must be mapped, whatever the order of parameters and fields
pub type SRevParamsViews = <RevParams<&'static [u8], u16, &'static [i32]> as SerializeInner>::SerType;
pub type SPairTAViews = <PairTA<&'static [u32], &'static [u8]> as SerializeInner>::SerType;
pub type SEZYViews = <EZY<&'static [u32], &'static [u64]> as SerializeInner>::SerType;
pub type DRevParamsVecs = <RevParams<Vec<u8>, u16, Vec<i32>> as DeserializeInner>::DeserType<'static>;


// ---- enums with bounded field-typed parameters (compile since fix 5a76344)
#[derive(Epserde, Debug, Clone, PartialEq)]
pub enum EBnd<T: Clone + core::fmt::Debug> {
    A,
    B(T),
    C { x: T, y: u8 },
}
pub type DEBndVec = <EBnd<Vec<u16>> as DeserializeInner>::DeserType<'static>;
pub type SEBndVec = <EBnd<Vec<u16>> as SerializeInner>::SerType;
pub type DEBndStr = <EBnd<String> as DeserializeInner>::DeserType<'static>;

#[derive(Epserde, Debug, Clone, Copy, PartialEq)]
#[repr(C)]
#[zero_copy]
pub enum ZEG<T: ZeroCopy> {
    A,
    B(T),
    C { x: T, y: u16 },
}
pub type DZEGu32 = <ZEG<u32> as DeserializeInner>::DeserType<'static>;
pub type SZEGu32 = <ZEG<u32> as SerializeInner>::SerType;
pub type TZEGu32 = ZEG<u32>;
pub const ZC_ZEG: bool = <ZEG<u32> as SerializeInner>::IS_ZERO_COPY;

// ---- bounds written in a where clause (compile since fix 0191486)
#[derive(Epserde, Debug, Clone, PartialEq)]
pub struct SWhere<A, B>
where
    A: Clone + core::fmt::Debug,
    B: DeepCopy + 'static,
{
    pub a: A,
    pub b: Vec<B>,
    pub c: u8,
}
pub type DSWhere = <SWhere<Vec<u32>, String> as DeserializeInner>::DeserType<'static>;
pub type SSWhere = <SWhere<Vec<u32>, String> as SerializeInner>::SerType;
#[derive(Epserde, Debug, Clone, Copy, PartialEq)]
#[repr(C)]
#[zero_copy]
pub struct ZWhere<A>
where
    A: ZeroCopy,
{
    pub a: A,
    pub b: u16,
}
pub type DZWhere = <ZWhere<u64> as DeserializeInner>::DeserType<'static>;
pub type TZWhere = ZWhere<u64>;

// ---- several where-predicates on the same field-typed parameter (all of them must be propagated)
#[derive(Epserde, Debug, Clone, PartialEq)]
pub struct SWhere2<T>
where
    T: PartialEq,
    T: Clone + core::fmt::Debug,
{
    pub t: T,
    pub n: u32,
}
pub type DSWhere2 = <SWhere2<Vec<u16>> as DeserializeInner>::DeserType<'static>;
pub type SSWhere2 = <SWhere2<&'static [u16]> as SerializeInner>::SerType;
#[derive(Epserde, Debug, Clone, PartialEq)]
pub enum EWhere2<T: core::fmt::Debug>
where
    T: PartialEq,
    T: Clone,
{
    A(T),
    B,
}
pub type DEWhere2 = <EWhere2<String> as DeserializeInner>::DeserType<'static>;

// ---- explicit discriminants: tags are declaration indices on all three sides, whatever the discriminants say
#[derive(Epserde, Debug, Clone, Copy, PartialEq)]
pub enum EDisc {
    Low = 1,
    Mid = 0,
    High = 10,
}
#[derive(Epserde, Debug, Clone, PartialEq)]
#[repr(u8)]
pub enum EDiscPayload {
    Ping = 3,
    Data(Vec<u8>) = 7,
    Pair { a: u16, b: u16 } = 1,
}

// ---- a parameter that occurs only inside another derived generic type: the field is not a bare parameter, so it is
//      read in full-copy mode and the parameter is not substituted
#[derive(Epserde, Debug, Clone, PartialEq)]
pub struct NestGen<A: DeepCopy + 'static> { pub inner: P1<A>, pub k: u8 }
pub type DNestGen = <NestGen<Vec<u32>> as DeserializeInner>::DeserType<'static>;
pub type SNestGen = <NestGen<Vec<u32>> as SerializeInner>::SerType;
// const generic with a default
#[derive(Epserde, Debug, Clone, PartialEq)]
pub struct CDefault<T, const N: usize = 4> { pub a: [u8; N], pub t: T }
pub type DCDefault = <CDefault<Vec<u64>> as DeserializeInner>::DeserType<'static>;
pub type DCDefault2 = <CDefault<String, 2> as DeserializeInner>::DeserType<'static>;

// ---- explicit and implicit discriminants mixed (Rust continues numbering after an explicit one): a tag scheme that
//      follows the discriminants only partly makes two variants collide
#[derive(Epserde, Debug, Clone, Copy, PartialEq)]
pub enum ELevel {
    Low = 1,
    Mid,
    High,
}
#[derive(Epserde, Debug, Clone, PartialEq)]
#[repr(u8)]
pub enum EShapeMixed {
    Empty = 1,
    Named { a: u16 },
    Tuple(Vec<u8>) = 7,
}

// ---- field types that share their last path segment but are different types (each must enter IS_ZERO_COPY,
// MaxSizeOf and the ZeroCopy probes by itself; a derive that keys field types by name loses the second one)
pub mod same_a {
    use epserde::prelude::*;
    #[derive(Epserde, Debug, Clone, Copy, PartialEq)]
    #[repr(C)]
    #[zero_copy]
    pub struct Handle { pub x: u32 }
}
pub mod same_b {
    use epserde::prelude::*;
    #[derive(Epserde, Debug, Clone, Copy, PartialEq)]
    #[repr(C)]
    #[zero_copy]
    pub struct Handle { pub y: u64, pub z: u8 }
}
#[derive(Epserde, Debug, Clone, Copy, PartialEq)]
#[repr(C)]
#[zero_copy]
pub struct ZSameName { pub a: same_a::Handle, pub b: same_b::Handle }
#[derive(Epserde, Debug, Clone, Copy, PartialEq)]
#[repr(C)]
#[zero_copy]
pub struct ZSameGeneric { pub p: ZWhere<u8>, pub q: ZWhere<u64>, pub r: [u16; 2], pub s: [u64; 2] }
#[derive(Epserde, Debug, Clone, PartialEq)]
pub struct SSameName { pub a: same_a::Handle, pub b: Vec<same_b::Handle>, pub c: same_b::Handle }
pub type DZSameName = <ZSameName as DeserializeInner>::DeserType<'static>;
pub type DSSameName = <SSameName as DeserializeInner>::DeserType<'static>;
pub const ZC_ZSAMENAME: bool = <ZSameName as SerializeInner>::IS_ZERO_COPY;
pub const ZC_ZSAMEGENERIC: bool = <ZSameGeneric as SerializeInner>::IS_ZERO_COPY;
