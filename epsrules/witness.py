"""WITNESS: compile-pass / compile-fail probe programs (filled in below)."""


def run_probes(ctx, rep, prop):
    return 0
