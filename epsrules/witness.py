"""WITNESS: compile-pass / compile-fail probe programs, judged by the stable rustc the repository is
built with, against an rlib of /repo's epserde with the working-tree derive macro patched in.

probes/<Cnn>/<name>.rs            header lines:  //@ expect: pass | fail[:E0xxx,E0yyy]
                                                 //@ rule: <rule id>   //@ what: <one line>
probes/<Cnn>/<name>.twin.rs       compiling twin of a failing probe (differs only in the offending lines)
A twin (or a pass probe's negative twin) that stops behaving as declared means the witness is stale: that is
a tool error (exit 3, no VIOLATION line), not a verdict.
"""
import concurrent.futures
import json
import os
import re
import shutil
import subprocess

from . import common
from .common import WORK, VERIF, Lock


class WitnessStale(Exception):
    pass


def host(facts):
    """Build the host crate once per tree; returns (deps_dir, epserde_rlib)."""
    marker = os.path.join(facts.dir, "probehost.json")
    if os.path.exists(marker):
        j = json.load(open(marker))
        if os.path.exists(j["rlib"]):
            return j["deps"], j["rlib"]
    with Lock("probehost"):
        d = os.path.join(WORK, "witness", facts.hash, "probehost")
        shutil.rmtree(d, ignore_errors=True)
        os.makedirs(os.path.join(d, "src"))
        open(os.path.join(d, "src", "lib.rs"), "w").write("pub use epserde;\n")
        common.write_witness_manifest(d, "probehost", facts.repo)
        tgt = os.path.join(WORK, "tgt", "probehost")
        env = dict(os.environ, CARGO_TARGET_DIR=tgt, CARGO_NET_OFFLINE="true")
        env.pop("RUSTC_WORKSPACE_WRAPPER", None)
        env.pop("RUSTFLAGS", None)
        p = subprocess.run(["cargo", "build", "--offline", "--message-format=json"], cwd=d, env=env, stdout=subprocess.PIPE, stderr=subprocess.PIPE, text=True)
        if p.returncode != 0:
            raise common.ExportError("probe host does not build:\n" + p.stderr[-2000:])
        rlib = None
        for line in p.stdout.splitlines():
            try:
                j = json.loads(line)
            except ValueError:
                continue
            if j.get("reason") == "compiler-artifact" and j.get("target", {}).get("name") == "epserde":
                for f in j.get("filenames", []):
                    if f.endswith(".rlib"):
                        rlib = f
        deps = os.path.join(tgt, "debug", "deps")
        if rlib is None:
            raise common.ExportError("probe host: epserde rlib not found")
        json.dump({"deps": deps, "rlib": rlib}, open(marker, "w"))
        return deps, rlib


def header(path):
    h = {"expect": "pass", "codes": [], "rule": "WITNESS", "what": ""}
    for line in open(path):
        m = re.match(r"//@\s*(\w+):\s*(.*)", line)
        if not m:
            if line.strip() and not line.startswith("//"):
                break
            continue
        k, v = m.group(1), m.group(2).strip()
        if k == "expect":
            if v.startswith("fail"):
                h["expect"] = "fail"
                if ":" in v:
                    h["codes"] = [c.strip() for c in v.split(":", 1)[1].split(",")]
            else:
                h["expect"] = "pass"
        else:
            h[k] = v
    return h


def compile_probe(path, deps, rlib, outdir):
    out = os.path.join(outdir, os.path.basename(path) + ".rmeta")
    cmd = ["rustc", "--edition", "2021", "--crate-name", "probe", "--crate-type", "lib", "--emit=metadata", "-o", out, "--error-format=json",
           "--extern", "epserde=" + rlib, "-L", "dependency=" + deps, "-A", "warnings", "--cap-lints", "allow", path]
    env = dict(os.environ)
    env.pop("RUSTFLAGS", None)
    p = subprocess.run(cmd, stdout=subprocess.PIPE, stderr=subprocess.PIPE, text=True, env=env)
    codes, msgs = [], []
    for line in p.stderr.splitlines():
        try:
            j = json.loads(line)
        except ValueError:
            continue
        if j.get("level") == "error":
            if j.get("code") and j["code"].get("code"):
                codes.append(j["code"]["code"])
            msgs.append(j.get("message", "")[:160])
    return p.returncode == 0, codes, msgs


def run_probes(ctx, rep, prop, only_rule=None):
    pdir = os.path.join(VERIF, "probes", prop)
    if not os.path.isdir(pdir):
        return 0
    files = sorted(f for f in os.listdir(pdir) if f.endswith(".rs"))
    if not files:
        return 0
    deps, rlib = host(ctx.facts)
    outdir = os.path.join(WORK, "probeout", "%s-%d" % (prop, os.getpid()))
    shutil.rmtree(outdir, ignore_errors=True)
    os.makedirs(outdir)
    results = {}
    with concurrent.futures.ThreadPoolExecutor(max_workers=12) as ex:
        futs = {ex.submit(compile_probe, os.path.join(pdir, f), deps, rlib, outdir): f for f in files}
        for fu in concurrent.futures.as_completed(futs):
            results[futs[fu]] = fu.result()
    shutil.rmtree(outdir, ignore_errors=True)
    n = 0
    stale = []
    for f in files:
        ok, codes, msgs = results[f]
        h = header(os.path.join(pdir, f))
        name = f[:-3]
        if name.endswith(".twin"):
            # twins must compile
            if not ok:
                stale.append("%s does not compile any more (%s %s)" % (f, codes[:2], msgs[:1]))
            continue
        n += 1
        rule = h.get("rule", "WITNESS")
        if h["expect"] == "pass":
            rep.oblige(ok)
            if not ok:
                rep.add(rule, "probe:" + name, "the program probes/%s/%s (%s) must compile but rustc rejects it: %s %s" % (prop, f, h.get("what", ""), codes[:3], msgs[:1]), "probes/%s/%s" % (prop, f))
        else:
            rep.oblige(not ok)
            if ok:
                rep.add(rule, "probe:" + name, "the program probes/%s/%s must be rejected by rustc but compiles: %s" % (prop, f, h.get("what", "")), "probes/%s/%s" % (prop, f))
            elif h["codes"] and not (set(codes) & set(h["codes"])) and codes:
                # rejected, but for another reason than the one the probe is about: only acceptable when the twin is healthy
                rep.notes.append("probe %s rejected with %s (expected one of %s)" % (f, codes[:3], h["codes"]))
        if len(rep.samples) < 12:
            rep.sample({"probe": "%s/%s" % (prop, f), "expect": h["expect"], "compiles": ok, "codes": codes[:3]})
    rep.count("probes_judged", n)
    if stale:
        raise WitnessStale("; ".join(stale))
    return n
