"""Header rules: guard table of check_header (G1-G3), dominance of the header check in both
deserializers (G4), writer/reader agreement of the header atoms with provenance labels (G5),
published constants (G6)."""
import struct

from . import facts, interp, wirehooks, guards, wire
from .guards import label, norm_cond, row_str, outcome_of
from .interp import C, is_c

PUBLISHED_MAGIC = struct.unpack("<Q", b"epserde ")[0]     # native (little-endian) reading of b"epserde "
PUBLISHED_MAGIC_REV = struct.unpack(">Q", b"epserde ")[0]
PUBLISHED_VERSION = (1, 1)


def run(u, body_id, params):
    b = u.bodies.get(body_id)
    if b is None:
        return None, None
    ip = interp.Interp(u, wirehooks.WireHooks())
    return ip, ip.run(b, params)


def find_fn(u, name, crate="epserde"):
    """Locate a free function by its item name (role), wherever it lives in the crate."""
    out = []
    for b in u.bodies.values():
        if b.d.get("krate") == crate and b.d.get("name") == name and b.kind == "Fn":
            out.append(b)
    return out


def header_writer_atoms(u, rep):
    bs = find_fn(u, "write_header")
    if len(bs) != 1:
        rep.add("ANCHOR", "write_header", "cannot locate the header writer (free function write_header): %d candidates" % len(bs))
        return None
    ip, paths = run(u, bs[0].id, [("backend",)])
    oks = [p for p in paths if p.kind == "ret" and outcome_of(u, p)[0] == "ok"]
    if len(oks) != 1:
        rep.add("G5", "write_header:paths", "header writer has %d successful paths, expected 1" % len(oks), bs[0].loc())
        return None
    atoms = []
    for ev in oks[0].events:
        if ev[0] == "W" and ev[2] == "F":
            atoms.append((ev[3], label(ev[4]), ev[5][1] if isinstance(ev[5], tuple) and ev[5][0] == "s" else None, ev[4]))
        elif ev[0] == "W":
            atoms.append((ev[2], None, None, None))
    return bs[0], atoms


def check_header_table(u, rep):
    bs = find_fn(u, "check_header")
    if len(bs) != 1:
        rep.add("ANCHOR", "check_header", "cannot locate the header checker (free function check_header): %d candidates" % len(bs))
        return None
    b = bs[0]
    ip, paths = run(u, b.id, [("backend",)])
    rep.count("check_header_paths", len(paths))
    return b, paths, guards.guard_table(u, paths)


def usize_size(u):
    l = u.layouts.get(("prim", "usize"))
    return l["size"] if l else 8


def rules_G(u, rep):
    """G1-G3, G5 on the header pair."""
    w = header_writer_atoms(u, rep)
    r = check_header_table(u, rep)
    if w is None or r is None:
        return
    wb, watoms = w
    b, paths, table = r
    loc = b.loc()
    rep.sample({"check_header_guard_table": {"success": table["success"], "rejects": [(x["fails"], x["error"], x["payload"]) for x in table["rejects"]]}})
    # labels of the two hashes as the *writer* computes them (sibling oracle)
    TH = watoms[4][1] if len(watoms) > 4 else None
    AH = watoms[5][1] if len(watoms) > 5 else None
    usz = usize_size(u)
    accept = {
        "magic": "read#0 Eq MAGIC",
        "major": "read#1 Eq VERSION.0",
        "minor": "read#2 Le VERSION.1",
        "usize": "read#3 Eq %d" % usz,
        "type_hash": "read#4 Eq %s" % TH,
        "align_hash": "read#5 Eq %s" % AH,
    }
    # G5: the writer's header atoms, in order, with provenance
    want_w = [(("prim", "u64"), "MAGIC"), (("prim", "u16"), "VERSION.0"), (("prim", "u16"), "VERSION.1"),
              (("prim", "u8"), str(usz)), (("prim", "u64"), None), (("prim", "u64"), None),
              (("adt", "alloc::string::String", ()), None)]
    got_w = [(a[0], a[1]) for a in watoms]
    ok = len(got_w) == len(want_w)
    if ok:
        for (gt, gl), (wt, wl) in zip(got_w, want_w):
            if gt != wt or (wl is not None and gl != wl):
                ok = False
    rep.oblige(ok)
    if not ok:
        rep.add("G5", "write_header:atoms", "header writer emits %s; the format is u64 MAGIC, u16 VERSION.0, u16 VERSION.1, u8 size_of(usize), u64 type hash, u64 align hash, String type name"
                % [(facts.ty_str(t), l) for t, l in got_w], wb.loc())
    if TH is None or "TypeHash::type_hash" not in TH or AH is None or "AlignHash::align_hash" not in AH:
        rep.oblige(False)
        rep.add("G5", "write_header:hashes", "header writer does not write finish(TypeHash::type_hash) then finish(AlignHash::align_hash): %s / %s" % (TH, AH), wb.loc())
    else:
        rep.oblige(True)
        if not AH.rstrip(")").endswith("(0"):
            rep.add("G5", "write_header:align-offset", "alignment hash of the header is not computed from offset 0: %s" % AH, wb.loc())
    # reader atom sequence on the success path
    succ = [p for p in paths if outcome_of(u, p)[0] == "ok"]
    rep.oblige(len(succ) == 1)
    if len(succ) != 1:
        rep.add("G1", "check_header:success-paths", "check_header has %d accepting paths, expected exactly one" % len(succ), loc)
        return
    reads = [(e[3], e[5]) for e in succ[0].events if e[0] == "R" and e[2] == "F"]
    wtypes = [a[0] for a in watoms if a[0] not in ("Flush", "A", "B", "Z")]
    ok = [t for t, _ in reads] == wtypes
    rep.oblige(ok)
    if not ok:
        rep.add("G5", "header:order", "check_header reads %s but write_header writes %s" % ([facts.ty_str(t) for t, _ in reads], [facts.ty_str(t) for t in wtypes]), loc)
    # G1: accepting conditions
    got = set(table["success"])
    want = set(accept.values())
    for name, row in accept.items():
        ok = row in got
        rep.oblige(ok)
        if not ok:
            near = [g for g in got if g.startswith(row.split(" ")[0] + " ")]
            rep.add("G1", "check_header:accept:" + name, "check_header does not accept exactly `%s`; it accepts %s" % (row, near or "nothing about that field"), loc)
    for g in got - want:
        rep.add("G1", "check_header:extra:" + g.split(" ")[0], "check_header has an additional acceptance condition `%s`" % g, loc)
    # G2: rejecting paths
    hash_payload_t = {"self_type_name": "type_name<T>", "self_type_hash": TH, "ser_type_name": "read#6", "ser_type_hash": "read#4"}
    hash_payload_a = {"self_type_name": "type_name<T>", "self_align_hash": AH, "ser_type_name": "read#6", "ser_align_hash": "read#5"}
    want_rej = {
        "read#0 Eq MAGIC_REV": ("Error::EndiannessError", {}),
        "read#0 not in {MAGIC,MAGIC_REV}": ("Error::MagicCookieError", {"0": "read#0"}),
        "read#1 Ne VERSION.0": ("Error::MajorVersionMismatch", {"0": "read#1"}),
        "read#2 Gt VERSION.1": ("Error::MinorVersionMismatch", {"0": "read#2"}),
        "read#3 Ne %d" % usz: ("Error::UsizeSizeMismatch", {"0": "read#3"}),
        "read#4 Ne %s" % TH: ("Error::WrongTypeHash", hash_payload_t),
        "read#5 Ne %s" % AH: ("Error::WrongAlignHash", hash_payload_a),
    }
    seen = set()
    NEG = {"Eq": "Ne", "Ne": "Eq", "Le": "Gt", "Gt": "Le", "Lt": "Ge", "Ge": "Lt"}

    def negate(row):
        ps = row.split(" ", 2)
        return "%s %s %s" % (ps[0], NEG[ps[1]], ps[2]) if len(ps) == 3 and ps[1] in NEG else None
    not_accept = {negate(a): a for a in want if negate(a)}
    for rj in table["rejects"]:
        f = rj["fails"]
        # a rejecting path has, by definition, left the accepting one: the negation of the accepting condition on the
        # very field the failing test is about may precede it (`if magic != MAGIC { if magic == MAGIC_REV {..} else {..} }`)
        fld = f.split(" ")[0]
        own = [a for a in rj["after"] if a in not_accept and a.split(" ")[0] == fld]
        if own:
            rj = dict(rj, after=[a for a in rj["after"] if a not in own])
            if f == "read#0 Ne MAGIC_REV":
                f = "read#0 not in {MAGIC,MAGIC_REV}"
        # alternative spelling of the magic mismatch: `read#0 Ne MAGIC` after excluding MAGIC_REV
        if f not in want_rej:
            rep.oblige(False)
            rep.add("G2", "check_header:reject:" + f.split(" ")[0] + ":" + rj["error"], "check_header rejects on `%s` with %s, which is not one of the specified checks" % (f, rj["error"]), loc)
            continue
        seen.add(f)
        err, payload = want_rej[f]
        ok = rj["error"] == err and rj["payload"] == payload
        rep.oblige(ok)
        if not ok:
            rep.add("G2", "check_header:reject:" + f.split(" ")[0], "on `%s` check_header returns %s%s, expected %s%s (the error must carry the offending value)"
                    % (f, rj["error"], rj["payload"], err, payload), loc)
        bad_after = [a for a in rj["after"] if a not in want]
        if bad_after:
            rep.add("G2", "check_header:reject-prefix:" + f.split(" ")[0], "the check `%s` is only reached under non-accepting conditions %s" % (f, bad_after), loc)
    for f in want_rej:
        if f not in seen:
            rep.oblige(False)
            rep.add("G2", "check_header:missing:" + f.split(" ")[0] + ":" + want_rej[f][0], "check_header has no path rejecting `%s` with %s" % (f, want_rej[f][0]), loc)
    # G3: no panic path
    rep.oblige(not table["panics"])
    for p in table["panics"]:
        rep.add("G3", "check_header:panic", "check_header can panic at %s after %s" % (p["where"], p["after"]), loc)
    rep.count("guard_rows", len(table["success"]) + len(table["rejects"]))
    return table


def rules_G4(u, rep):
    """Both deserializers: header check first; the value is read only on the accepting path."""
    found = 0
    for im in u.impls_by_trait.get("epserde::deser::Deserialize", []):
        for meth, mode in (("deserialize_full", "full"), ("deserialize_eps", "eps")):
            bid = im.item_id(meth)
            b = u.body(bid) if bid else None
            if b is None:
                continue
            found += 1
            ip, paths = run(u, bid, [("backend",)])
            nok = 0
            for p in paths:
                out = outcome_of(u, p)
                freads = [(i, e) for i, e in enumerate([e for e in p.events if e[0] == "R"]) if e[2] == "F" and e[3] == ("param", "T", 0)]
                hdr = [e for e in p.events if e[0] == "R" and e[2] == "F" and e[3] != ("param", "T", 0)]
                if out[0] == "ok":
                    nok += 1
                    ok = len(freads) == 1 and freads[0][0] == len(hdr) and len(hdr) >= 7 and freads[0][1][4] == mode
                    rep.oblige(ok)
                    if not ok:
                        rep.add("G4", "%s:order" % meth, "%s: the value is not read exactly once, in %s mode, after the 7 header fields (reads: %s)"
                                % (meth, mode, [facts.ty_str(e[3]) for e in p.events if e[0] == "R"]), b.loc())
                    # must be conditioned by both hash comparisons
                    rows = [row_str(norm_cond(c)) for c in p.conds]
                    for need in ("read#4 Eq", "read#5 Eq", "read#0 Eq MAGIC", "read#1 Eq", "read#2 Le", "read#3"):
                        okc = any(r.startswith(need) for r in rows)
                        rep.oblige(okc)
                        if not okc:
                            rep.add("G4", "%s:unchecked:%s" % (meth, need.split(" ")[0]), "%s produces a value on a path where `%s ...` was not established" % (meth, need), b.loc())
                elif out[0] == "err":
                    ok = not freads
                    rep.oblige(ok)
                    if not ok:
                        rep.add("G4", "%s:value-before-check" % meth, "%s reads the value before a header check that can still fail (%s)" % (meth, out[1]), b.loc())
                    # a rejection decided before any header field was read cannot depend on the header: it pre-empts
                    # the specific header errors for the inputs it applies to
                    ok = bool(hdr)
                    rep.oblige(ok)
                    if not ok:
                        rep.add("G4", "%s:pre-header-exit" % meth, "%s can fail (%s) before it has read any header field: on those inputs a corrupted header is not reported by its own error" % (meth, out[1]), b.loc())
            if nok != 1:
                rep.add("G4", "%s:paths" % meth, "%s has %d accepting paths, expected 1" % (meth, nok), b.loc())
    rep.floor("Deserialize entry points", found, 2)


def rules_G6(u, rep):
    """Published constants."""
    vals = {}
    b = u.bodies.get("epserde::MAGIC")
    if b is not None and b.value:
        vals["MAGIC"] = b.value.get("v")
    b = u.bodies.get("epserde::MAGIC_REV")
    if b is not None and b.value:
        vals["MAGIC_REV"] = b.value.get("v")
    b = u.bodies.get("epserde::VERSION")
    if b is not None:
        ip = interp.Interp(u, None)
        try:
            ps = ip.run(b, [])
            v = ps[0].value
            if isinstance(v, tuple) and v[0] == "tuple":
                vals["VERSION"] = tuple(x[1] if x[0] == "c" else x[2] for x in v[1])
        except Exception:
            pass
    want = {"MAGIC": PUBLISHED_MAGIC, "MAGIC_REV": PUBLISHED_MAGIC_REV, "VERSION": PUBLISHED_VERSION}
    for k, wv in want.items():
        ok = vals.get(k) == wv
        rep.oblige(ok)
        if not ok:
            rep.add("G6", "const:" + k, "constant %s evaluates to %s, the published format has %s" % (k, vals.get(k), wv))
    return vals
