import sys, time
from . import facts, wire, rules_wire, common
u = facts.load_universe(sys.argv[1].split(","))
w = wire.Wire(u)
t0=time.time()
triples = rules_wire.collect(u, w)
print("collected", len(triples), "in", round(time.time()-t0,1))
rep = common.Report("CXX", "quick")
exp = rules_wire.Expander(u, w)
for t in triples:
    t.universe = u; t.wire = w
    rules_wire.check_triple(t, exp, rep)
    if len(sys.argv)>2 and sys.argv[2] in t.key:
        for side, ps in t.paths.items():
            for p in ps:
                print("  ", t.key, side, p.outcome, "|", p.cond_show(), "|", p.show(), "| dyn:", [wire.vs(d[0]) for d in p.dyn][:3], p.problems)
seen=set()
for f in rep.findings:
    if f.full_key() in seen: continue
    seen.add(f.full_key())
    print(f.full_key(), "::", f.msg, "@", f.loc)
print("obligations", rep.obligations, rep.discharged, rep.counters, "time", round(time.time()-t0,1))
