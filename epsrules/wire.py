"""WIRE: wire-term extraction from interpreter paths, normalisation, sibling agreement.

A *wire path* is the list of atoms moved between value and stream on one
path of a (de)serializer, plus the static / selector conditions of that path.
"""
from . import facts, interp, wirehooks
from .facts import ty_str, subst, unify
from .interp import C, is_c, short

RESULT = "core::result::Result"
ZERO = "epserde::traits::copy_type::Zero"
DEEP = "epserde::traits::copy_type::Deep"


class Atom:
    __slots__ = ("k", "ty", "n", "src", "atom", "mode", "sp", "body", "name", "content")

    def __init__(self, k, ty=None, n=None, src=None, atom=None, mode=None, sp=None, body=None, name=None, content=None):
        self.k = k
        self.ty = ty
        self.n = n
        self.src = src
        self.atom = atom
        self.mode = mode
        self.sp = sp
        self.body = body
        self.name = name
        self.content = content

    def key(self):
        if self.k == "R":
            return ("R", self.n, tuple(a.key() for a in self.body))
        return (self.k, self.ty, self.n)

    def gshow(self):
        """rendering for the golden format file: includes constants and leaf encoders"""
        from .guards import label
        if self.k == "B":
            extra = ""
            c = self.content
            if isinstance(c, tuple) and c and c[0] == "bytes":
                cc = c[2]
                if cc[0] == "of" and isinstance(cc[1], tuple) and cc[1] and cc[1][0] == "call":
                    extra = ":" + cc[1][1]
                elif cc[0] == "elems":
                    extra = ":[%s]" % ",".join(label(x) for x in cc[1])
                elif cc[0] == "repeat":
                    extra = ":[%s;..]" % label(cc[1])
            return "B(%s%s)" % (vs(self.n), extra)
        if self.k == "F":
            cv = None
            v = self.src
            if isinstance(v, tuple) and v and v[0] == "c":
                cv = str(v[1])
            elif isinstance(v, tuple) and v and v[0] == "namedc":
                # the names of the format constants are part of the description; any other constant is its value
                cv = v[1].split("::", 1)[-1] if v[1].split("::")[-1].split(".")[0] in ("MAGIC", "MAGIC_REV", "VERSION") else str(v[2])
            return "F(%s%s)" % (ty_str(self.ty), ("=" + cv) if cv is not None else "")
        if self.k == "R":
            return "R(%s,[%s])" % (vs(self.n), " ".join(a.gshow() for a in self.body))
        return self.show()

    def show(self):
        if self.k == "B":
            return "B(%s)" % vs(self.n)
        if self.k == "Z":
            return "Z(%s,%s)" % (ty_str(self.ty), vs(self.n))
        if self.k == "F":
            return "F(%s)" % ty_str(self.ty)
        if self.k == "A":
            return "A(%s)" % ty_str(self.ty)
        if self.k == "R":
            return "R(%s,[%s])" % (vs(self.n), " ".join(a.show() for a in self.body))
        return self.k


def vs(v):
    """short rendering of an abstract value"""
    if not isinstance(v, tuple) or not v:
        return str(v)
    k = v[0]
    if k == "c":
        return str(v[1])
    if k == "ref":
        return "#%d" % v[1]
    if k == "atom":
        return "atom%d" % v[1]
    if k == "cparam":
        return v[1]
    if k == "sizeof":
        return "|%s|" % ty_str(v[1])
    if k == "unit":
        return "unit(%s)" % ty_str(v[1])
    if k == "len":
        return "len(%s)" % vs(v[1])
    if k == "bin":
        return "(%s %s %s)" % (vs(v[2]), v[1], vs(v[3]))
    if k == "self":
        return "self"
    if k == "field":
        return "%s.%s" % (vs(v[1]), v[3])
    if k == "vfield":
        return "%s@%s.%s" % (vs(v[1]), v[2], v[3])
    if k == "itercount":
        return "itercount%d" % v[1]
    if k == "namedc":
        return v[1].split("::")[-1]
    if k == "assoc":
        return "%s(%s)" % (v[2], ty_str(v[1]) if v[1] else "?")
    if k == "call":
        return "%s(%s)" % (v[1], ",".join(vs(a) for a in v[2]))
    if k == "un":
        return "%s(%s)" % (v[1], vs(v[2]))
    if k == "pad":
        return "pad(%s,%s)" % (vs(v[1]), vs(v[2]))
    if k == "alignof":
        return "align_of(%s)" % ty_str(v[1])
    if k == "cast":
        return vs(v[1])
    if k == "param":
        return v[1]
    if k == "elem":
        return "elem(%s)" % vs(v[1])
    if k == "alignto_edge":
        return "align_to_edge%d" % v[2]
    if k == "tpeek":
        return "peek<%s>" % ty_str(v[2])
    return k


class WPath:
    """Normalised path."""
    __slots__ = ("statics", "selectors", "dyn", "atoms", "outcome", "value", "problems", "raw", "panic_sp")

    def __init__(self):
        self.statics = {}
        self.selectors = []
        self.dyn = []
        self.atoms = []
        self.outcome = None
        self.value = None
        self.problems = []
        self.raw = None

    def show(self):
        return " ".join(a.show() for a in self.atoms) or "ε"

    def gshow(self):
        return " ".join(a.gshow() for a in self.atoms) or "ε"

    def cond_show(self, golden=False):
        out = []
        for k, v in self.statics.items():
            if golden and isinstance(k, tuple) and k and k[0] == "assoc":
                # run-time refusals (IS_ZERO_COPY) do not describe the bytes of the format
                continue
            out.append("%s=%s" % (vs(k) if not (isinstance(k, tuple) and k and k[0] == "copy") else "Copy(%s)" % ty_str(k[1]), v))
        for s in self.selectors:
            if s[0] == "variant":
                out.append("variant=%s" % s[4])
            elif s[0] == "eq":
                out.append("%s==%s" % (vs(s[1]), vs(s[2])))
            elif s[0] == "else":
                out.append("else(%s)" % vs(s[1]))
        return ",".join(out)


def is_static_expr(v):
    """True when v only depends on type-level constants."""
    if not isinstance(v, tuple) or not v:
        return True
    k = v[0]
    if k in ("c", "sizeof", "alignof", "unit", "cparam", "assoc", "namedc", "s"):
        return True
    if k == "bin":
        return is_static_expr(v[2]) and is_static_expr(v[3])
    if k == "un":
        return is_static_expr(v[2])
    if k == "cast":
        return is_static_expr(v[1])
    if k == "call" and v[1] in ("max", "min"):
        return all(is_static_expr(x) for x in v[2])
    return False


def is_tag_test(a, c):
    """a is (a cast of) a value read from the stream, c an integer constant"""
    x = a
    while isinstance(x, tuple) and x and x[0] in ("cast", "tryok", "unwrapped"):
        x = x[1]
    if not (isinstance(x, tuple) and x and x[0] == "atom"):
        return False
    return is_c(c) or (isinstance(c, tuple) and c and c[0] == "namedc")


def strip_not(v, pol):
    while isinstance(v, tuple) and v and v[0] == "un" and v[1] == "Not":
        v = v[2]
        pol = not pol
    return v, pol


def canon_static(v, pol):
    v, pol = strip_not(v, pol)
    if isinstance(v, tuple) and v and v[0] == "bin" and v[1] == "Ne":
        return ("bin", "Eq", v[2], v[3]), not pol
    return v, pol


class Wire:
    def __init__(self, universe):
        self.u = universe
        self._unit_cache = {}
        self._type_cache = {}
        self.stats = {"bodies": 0, "paths": 0, "atoms": 0, "inlined": 0}

    # ------------------------------------------------------------------ extraction
    def run_body(self, body, params, targs=None):
        ip = interp.Interp(self.u, wirehooks.WireHooks())
        paths = ip.run(body, params, targs)
        self.stats["bodies"] += 1
        self.stats["paths"] += len(paths)
        return ip, paths

    def unit_canon(self, t):
        """Canonical representative of the alignment unit of t: follows MaxSizeOf impls that
        merely delegate (arrays delegate to their element)."""
        if t in self._unit_cache:
            return self._unit_cache[t]
        self._unit_cache[t] = t
        res = t
        for im in self.u.impls_by_trait.get("epserde::traits::type_info::MaxSizeOf", []):
            if facts.has_param(im.self_ty) and im.self_ty[0] == "param":
                continue
            m = {}
            if im.self_ty[0] != t[0]:
                continue
            if not unify(im.self_ty, t, m):
                continue
            bid = im.item_id("max_size_of")
            b = self.u.body(bid)
            if b is None:
                continue
            gens = b.generics or im.generics
            targs = []
            for g in gens:
                a = m.get(g["index"])
                if a is None and g["kind"] == "const":
                    a = m.get(g["name"])
                targs.append(a if a is not None else ("param", g["name"], g["index"]))
            ip = interp.Interp(self.u, None)
            try:
                ps = ip.run(b, [], tuple(targs))
            except interp.Unsupported:
                break
            if len(ps) == 1 and ps[0].kind == "ret":
                v = ps[0].value
                if isinstance(v, tuple) and v and v[0] == "unit" and v[1] != t:
                    res = self.unit_canon(v[1])
            break
        self._unit_cache[t] = res
        return res

    TWO_VARIANTS = {"core::option::Option": ("None", "Some"), "core::result::Result": ("Ok", "Err")}

    def complement_variant(self, c):
        """`else` over a value all of whose other variants were tested (`if let Some(x) = v {..} else {..}`): the
        catch-all is the one remaining variant."""
        v, negs = c[1], c[2]
        if not negs or not all(isinstance(n, tuple) and n and n[0] == "variant" and n[1] == v for n in negs):
            return None
        adt = negs[0][2]
        if any(n[2] != adt for n in negs):
            return None
        names = None
        if adt in self.TWO_VARIANTS:
            names = list(self.TWO_VARIANTS[adt])
        else:
            ent = self.u.adts.get(adt)
            if ent is not None:
                names = [None] * len(ent[1]["variants"])
                for vj in ent[1]["variants"]:
                    if vj["index"] < len(names):
                        names[vj["index"]] = vj["name"]
        if not names:
            return None
        left = [i for i in range(len(names)) if i not in set(n[3] for n in negs)]
        if len(left) != 1 or names[left[0]] is None:
            return None
        return ("variant", v, adt, left[0], names[left[0]])

    # ------------------------------------------------------------------ normalisation
    def normalise(self, ip, path, side):
        wp = WPath()
        wp.raw = path
        # conditions
        neg_eqs = {}
        for c in path.conds:
            k = c[0]
            if k == "tyeq":
                al = c[1]
                if isinstance(al, tuple) and al[0] == "alias" and al[2].endswith("CopyType::Copy"):
                    key = ("copy", al[3][0])
                    val = "Zero" if c[2][1] == ZERO else "Deep" if c[2][1] == DEEP else ty_str(c[2])
                    if key in wp.statics and wp.statics[key] != val:
                        wp.problems.append(("contradictory-static", key))
                    wp.statics[key] = val
                else:
                    wp.statics[("tyeq", al)] = c[2]
            elif k in ("true", "false"):
                v, pol = canon_static(c[1], k == "true")
                if is_static_expr(v):
                    wp.statics[v] = pol
                elif isinstance(v, tuple) and v[0] == "bin" and v[1] == "Eq" and (is_tag_test(v[2], v[3]) or is_tag_test(v[3], v[2])):
                    # `if tag == k` spelling of a tag match
                    a, cst = (v[2], v[3]) if is_tag_test(v[2], v[3]) else (v[3], v[2])
                    if pol:
                        wp.selectors.append(("eq", a, cst if is_c(cst) else C(cst[2]), cst[1] if cst[0] == "namedc" else None))
                    else:
                        neg_eqs.setdefault(a, []).append(("eq", a, cst if is_c(cst) else C(cst[2]), cst[1] if cst[0] == "namedc" else None))
                else:
                    wp.dyn.append((v, pol, c[2] if len(c) > 2 else None))
            elif k in ("variant", "eq", "else"):
                c2 = self.complement_variant(c) if k == "else" else None
                wp.selectors.append(c2 or c)
            else:
                wp.dyn.append((c, True, None))
        for a, negs in neg_eqs.items():
            if not any(s_[0] == "eq" and s_[1] == a for s_ in wp.selectors):
                # small integer reasoning: an unsigned value with an upper bound and all but one value excluded
                single = self.single_value(path, a, [n_[2][1] for n_ in negs if is_c(n_[2])])
                if single is not None:
                    wp.selectors.append(("eq", a, C(single), None))
                else:
                    wp.selectors.append(("else", a, tuple(negs)))
        # outcome
        v = path.value
        if path.kind == "panic":
            wp.outcome = "panic"
            wp.value = v
        elif isinstance(v, tuple) and v and v[0] == "adt" and v[1] == RESULT:
            wp.outcome = "ok" if v[2] == 0 else "err"
            wp.value = dict(v[3]).get(0)
        else:
            wp.outcome = "ok?"
            wp.value = v
        wp.atoms = self.norm_events(ip, list(path.events), wp, side, top=True)
        self.link_counts(wp, side)
        self.apply_dyn_equalities(wp)
        return wp

    def single_value(self, path, a, excluded):
        from .guards import norm_cond
        hi = None
        lo = 0
        for c in path.conds:
            if c[0] not in ("true", "false"):
                continue
            r = norm_cond(c)
            if r[0] == "opaque" or r[0] != a or not is_c(r[2] if r[2] is not None else ("x",)):
                continue
            k = r[2][1]
            if r[1] == "Le":
                hi = k if hi is None else min(hi, k)
            elif r[1] == "Lt":
                hi = k - 1 if hi is None else min(hi, k - 1)
            elif r[1] == "Ge":
                lo = max(lo, k)
            elif r[1] == "Gt":
                lo = max(lo, k + 1)
        if hi is None or hi - lo > 64:
            return None
        vals = [v for v in range(lo, hi + 1) if v not in excluded]
        return vals[0] if len(vals) == 1 else None

    def norm_events(self, ip, events, wp, side, top=False):
        atoms = []
        pending = []      # [(n, id, typed or None, span)]
        i = 0
        while i < len(events):
            ev = events[i]
            i += 1
            k = ev[0]
            if k == "W" or k == "R":
                recv, kind = ev[1], ev[2]
                if recv != ("backend",):
                    wp.problems.append(("event-on-non-backend", kind, ev[-1]))
                    continue
                if pending and k == "R":
                    wp.problems.append(("read-while-peek-pending", pending[0][3], ev[-1]))
                if k == "W":
                    if kind == "B":
                        atoms.append(Atom("B", n=ev[3], src=self.content_src(ev[4]), content=ev[4], sp=ev[5]))
                    elif kind == "F":
                        atoms.append(Atom("F", ty=ev[3], src=ev[4], name=ev[5], sp=ev[6]))
                    elif kind == "A":
                        atoms.append(Atom("A", ty=self.unit_canon(ev[3]), sp=ev[4]))
                    elif kind == "Z":
                        V, nbytes, buf = ev[3], ev[4], ev[5]
                        cnt = ip.binop("Div", nbytes, ip.size_of(V))
                        a = Atom("Z", ty=V, n=cnt, src=self.content_src(buf), content=buf, sp=ev[6])
                        self.flatten(ip, a)
                        atoms.append(a)
                    elif kind == "Flush":
                        atoms.append(Atom("Flush", sp=ev[3]))
                else:
                    if kind == "F":
                        atoms.append(Atom("F", ty=ev[3], mode=ev[4], atom=ev[5], sp=ev[6]))
                    elif kind == "A":
                        atoms.append(Atom("A", ty=self.unit_canon(ev[3]), sp=ev[4]))
                    elif kind == "Z":
                        a = Atom("Z", ty=ev[3], n=ev[4], atom=ev[5], sp=ev[6])
                        self.flatten(ip, a)
                        atoms.append(a)
                    elif kind == "B":
                        atoms.append(Atom("B", n=ev[3], atom=ev[4], sp=ev[5]))
            elif k == "Peek":
                if len(ev) == 3:   # ('Peek', ('elem', idx), span)
                    idx = ev[1][1]
                    n = ip.binop("Add", idx, C(1))
                    pending.append([n, None, None, ev[2]])
                else:
                    pending.append([ev[1], ev[2], None, ev[3]])
            elif k == "PeekTyped":
                for p in pending:
                    if p[1] == ev[1]:
                        p[2] = ev[2]
            elif k == "Store":
                root, pth, val = ev[1], ev[2], ev[3]
                if root == ("backend",):
                    fname = pth[0][2] if pth else None
                    if fname == "data":
                        if isinstance(val, tuple) and val and val[0] == "bdata_from":
                            n = val[1]
                            typed = None
                            for p in pending:
                                if p[0] != n:
                                    wp.problems.append(("skip-differs-from-peek", vs(p[0]), vs(n), p[3]))
                                if p[2] is not None:
                                    typed = p[2]
                            sp = pending[0][3] if pending else None
                            pending = []
                            # position must advance by the same amount
                            posn = None
                            if i < len(events) and events[i][0] == "MayPanic":
                                i += 1
                            if i < len(events) and events[i][0] == "Store" and events[i][1] == ("backend",) and events[i][2] and events[i][2][0][2] == "pos":
                                pv = events[i][3]
                                i += 1
                                if pv != ip.binop("Add", ("bpos",), n) and pv != ("bin", "Add", ("bpos",), n):
                                    wp.problems.append(("pos-advance-differs-from-skip", vs(pv), vs(n), sp))
                            else:
                                wp.problems.append(("skip-without-pos-update", vs(n), sp))
                            if typed is not None:
                                a = Atom("Z", ty=typed, n=ip.binop("Div", n, ip.size_of(typed)), sp=sp)
                                self.flatten(ip, a)
                                atoms.append(a)
                            else:
                                atoms.append(Atom("B", n=n, sp=sp))
                        else:
                            wp.problems.append(("unknown-store-to-backend-data", str(val)[:80]))
                    elif fname == "pos":
                        wp.problems.append(("pos-store-without-skip", str(val)[:80]))
                    else:
                        wp.problems.append(("store-to-backend", str(pth)))
                # stores to other roots are not wire events
            elif k == "Loop":
                cnt, body = ev[1], ev[2]
                if isinstance(body, tuple) and body and body[0] == "alt":
                    alts = body[1]
                    subs = []
                    for (conds, evs) in alts:
                        sub = WPath()
                        subs.append(self.norm_events(ip, list(evs), sub, side))
                        wp.problems.extend(sub.problems)
                    keys = set(tuple(a.key() for a in s) for s in subs)
                    if len(keys) > 1:
                        wp.problems.append(("loop-body-paths-differ", ev[4]))
                    batoms = subs[0] if subs else []
                else:
                    sub = WPath()
                    batoms = self.norm_events(ip, list(body), sub, side)
                    wp.problems.extend(sub.problems)
                if not batoms:
                    continue
                if len(batoms) == 1 and batoms[0].k == "Z" and is_c(batoms[0].n):
                    a = batoms[0]
                    atoms.append(Atom("Z", ty=a.ty, n=ip.binop("Mul", cnt, a.n), src=a.src, atom=a.atom, sp=a.sp))
                elif len(batoms) == 1 and batoms[0].k == "B" and is_c(batoms[0].n):
                    a = batoms[0]
                    atoms.append(Atom("B", n=ip.binop("Mul", cnt, a.n), src=a.src, atom=a.atom, sp=a.sp, content=a.content))
                else:
                    atoms.append(Atom("R", n=cnt, body=batoms, sp=ev[4]))
            elif k == "UnknownBackendUse":
                wp.problems.append(("unknown-backend-use", ev[1], ev[2]))
            elif k == "UnknownLoop":
                wp.problems.append(("unknown-loop", ev[1]))
        if pending and top and wp.outcome in ("ok", "ok?"):
            for p in pending:
                wp.problems.append(("peek-not-consumed", vs(p[0]), p[3]))
        if pending and top and wp.outcome == "err":
            wp.dyn.append((("peek-pending-on-error",), True, pending[0][3]))
        return atoms

    def flatten(self, ip, a):
        """Z([T;N], c) = Z(T, N*c)"""
        while isinstance(a.ty, tuple) and a.ty[0] == "array":
            n = a.ty[2]
            nv = C(n) if isinstance(n, int) else ("cparam", n[1])
            a.n = ip.binop("Mul", nv, a.n)
            a.ty = a.ty[1]

    def content_src(self, buf):
        if isinstance(buf, tuple) and buf:
            if buf[0] == "bytes":
                c = buf[2]
                if c[0] == "of":
                    v = c[1]
                    if isinstance(v, tuple) and v and v[0] == "call" and v[2]:
                        return v[2][0]
                    return v
                if c[0] == "elems":
                    return ("elems", c[1])
                if c[0] == "repeat":
                    return ("repeat", c[1])
                return c
            if buf[0] == "rawslice":
                obj = buf[1]
                if isinstance(obj, tuple) and obj and obj[0] == "elems":
                    return obj[1]
                return obj
        return buf

    def link_counts(self, wp, side):
        """Replace counts that denote the value of an earlier atom by ('ref', index)."""
        flat = wp.atoms
        srcs = {}
        for i, a in enumerate(flat):
            if a.k in ("F", "B"):
                if side == "ser" and a.src is not None and not is_c(a.src):
                    srcs.setdefault(a.src, i)
                if side != "ser" and a.atom is not None:
                    srcs[("atom", a.atom)] = i

        def rep(v):
            if v in srcs:
                return ("ref", srcs[v])
            if isinstance(v, tuple) and v:
                if v[0] == "tryok":
                    return rep(v[1])
                if v[0] == "bin":
                    return ("bin", v[1], rep(v[2]), rep(v[3]))
            return v

        def walk(atoms):
            for a in atoms:
                if a.k in ("Z", "B", "R") and a.n is not None:
                    a.n = rep(a.n)
                if a.k == "R":
                    walk(a.body)
        walk(flat)
        wp.dyn = [(rep(v) if isinstance(v, tuple) else v, pol, sp) for (v, pol, sp) in wp.dyn]

    def apply_dyn_equalities(self, wp):
        """On a path where X == Y is known (dynamic condition), rewrite iteration counts X to Y."""
        eqs = []
        for (v, pol, sp) in wp.dyn:
            if isinstance(v, tuple) and v and v[0] == "bin" and v[1] == "Eq" and pol:
                eqs.append((v[2], v[3]))
            if isinstance(v, tuple) and v and v[0] == "bin" and v[1] == "Ne" and not pol:
                eqs.append((v[2], v[3]))
        if not eqs:
            return

        def rep(v):
            for (x, y) in eqs:
                if v == x and isinstance(x, tuple) and x and x[0] == "itercount":
                    return y
                if v == y and isinstance(y, tuple) and y and y[0] == "itercount":
                    return x
            if isinstance(v, tuple) and v and v[0] == "bin":
                return ("bin", v[1], rep(v[2]), rep(v[3]))
            return v

        def walk(atoms):
            for a in atoms:
                if a.n is not None:
                    a.n = rep(a.n)
                if a.k == "R":
                    walk(a.body)
        walk(wp.atoms)

    # ------------------------------------------------------------------ driver for one function
    def extract(self, body, side, params=None, targs=None):
        if params is None:
            params = []
            for p in body.thir["params"]:
                params.append(("self",) if p.get("self") else ("backend",))
        ip, paths = self.run_body(body, params, targs)
        out = []
        for p in paths:
            wp = self.normalise(ip, p, side)
            out.append(wp)
        out = merge_paths(out)
        return ip, out


def merge_paths(wps):
    """Merge paths that differ only in the polarity of one static condition and are otherwise
    identical (e.g. the diagnostic-only ZERO_COPY_MISMATCH branch)."""
    changed = True
    while changed:
        changed = False
        n = len(wps)
        for i in range(n):
            for j in range(i + 1, n):
                a, b = wps[i], wps[j]
                if a.outcome != b.outcome or [x.key() for x in a.atoms] != [x.key() for x in b.atoms]:
                    continue
                if a.selectors != b.selectors or a.value != b.value:
                    continue
                ka, kb = set(a.statics), set(b.statics)
                if ka != kb:
                    continue
                diff = [k for k in ka if a.statics[k] != b.statics[k]]
                if len(diff) == 1 and a.dyn == b.dyn:
                    del a.statics[diff[0]]
                    a.problems = a.problems + [p for p in b.problems if p not in a.problems]
                    wps.pop(j)
                    changed = True
                    break
            if changed:
                break
    return wps


# ---------------------------------------------------------------------- agreement
def statics_compatible(a, b):
    for k, v in a.items():
        if k in b and b[k] != v:
            return False
    return True


def atoms_equal(x, y, assume=None):
    """Structural equality of two atom lists. assume: dict of static facts (e.g. sizeof T == 0)."""
    if len(x) != len(y):
        return False
    for a, b in zip(x, y):
        if not atom_eq(a, b):
            return False
    return True


def atom_eq(a, b):
    if a.k != b.k:
        # untyped bytes vs u8 block
        if {a.k, b.k} == {"B", "Z"}:
            z = a if a.k == "Z" else b
            o = b if a.k == "Z" else a
            return z.ty == ("prim", "u8") and z.n == o.n
        return False
    if a.k == "R":
        return a.n == b.n and atoms_equal(a.body, b.body)
    if a.k == "Flush":
        return True
    return a.ty == b.ty and a.n == b.n


def drop_zero_sized(atoms, zero_types):
    out = []
    for a in atoms:
        if a.k == "Z" and a.ty in zero_types:
            continue
        if a.k == "B" and a.n == C(0):
            continue
        out.append(a)
    return out
