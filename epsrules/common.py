"""Shared infrastructure: repo hashing, fact export/cache, findings, evidence."""
import fcntl
import hashlib
import json
import os
import shutil
import subprocess
import sys
import time

VERIF = os.path.dirname(os.path.dirname(os.path.abspath(__file__)))
WORK = os.path.join(VERIF, ".work")
DRIVER = os.path.join(VERIF, "tools", "epsfacts", "target", "release", "epsfacts")


def repo_dir():
    return os.environ.get("REPO", "/repo")


def tree_hash(repo=None):
    repo = repo or repo_dir()
    h = hashlib.sha256()
    files = []
    for root, dirs, fs in os.walk(repo):
        dirs[:] = [d for d in dirs if d not in ("target", ".git", ".github")]
        for f in fs:
            if f.endswith((".rs", ".toml", ".lock", ".md")):
                files.append(os.path.join(root, f))
    for f in sorted(files):
        h.update(os.path.relpath(f, repo).encode())
        h.update(b"\0")
        with open(f, "rb") as fh:
            h.update(fh.read())
        h.update(b"\0")
    return h.hexdigest()[:16]


def nightly_sysroot():
    return subprocess.check_output(["rustc", "+nightly", "--print", "sysroot"], text=True).strip()


class Lock:
    def __init__(self, name):
        os.makedirs(WORK, exist_ok=True)
        self.path = os.path.join(WORK, name + ".lock")

    def __enter__(self):
        self.f = open(self.path, "w")
        fcntl.flock(self.f, fcntl.LOCK_EX)
        return self

    def __exit__(self, *a):
        fcntl.flock(self.f, fcntl.LOCK_UN)
        self.f.close()


def ensure_driver():
    if os.path.exists(DRIVER):
        return
    with Lock("driver"):
        if os.path.exists(DRIVER):
            return
        env = dict(os.environ, CARGO_NET_OFFLINE="true")
        subprocess.check_call(["cargo", "build", "--release", "--offline"],
                              cwd=os.path.join(VERIF, "tools", "epsfacts"), env=env)


def run_export(cargo_dir, out_dir, target_dir, crates, cargo_args, extra_rustflags="", log=None):
    """Run `cargo +nightly check` with the exporter as workspace wrapper."""
    ensure_driver()
    os.makedirs(out_dir, exist_ok=True)
    env = dict(os.environ)
    env["LD_LIBRARY_PATH"] = os.path.join(nightly_sysroot(), "lib") + ":" + env.get("LD_LIBRARY_PATH", "")
    env["RUSTFLAGS"] = ("-Zmir-opt-level=0 -Awarnings " + extra_rustflags).strip()
    env["RUSTC_WORKSPACE_WRAPPER"] = DRIVER
    env["EPSFACTS_CRATES"] = ",".join(crates)
    env["EPSFACTS_OUT"] = out_dir
    env["CARGO_TARGET_DIR"] = target_dir
    env["CARGO_NET_OFFLINE"] = "true"
    env.pop("RUSTC_WRAPPER", None)
    # force the member crates to be recompiled (cargo would otherwise skip the wrapper)
    fp = os.path.join(target_dir, "debug", ".fingerprint")
    if os.path.isdir(fp):
        for d in os.listdir(fp):
            base = d.rsplit("-", 1)[0].replace("-", "_")
            if base in crates:
                shutil.rmtree(os.path.join(fp, d), ignore_errors=True)
    cmd = ["cargo", "+nightly", "check", "--offline"] + cargo_args
    p = subprocess.run(cmd, cwd=cargo_dir, env=env, stdout=subprocess.PIPE, stderr=subprocess.STDOUT, text=True)
    if log:
        with open(log, "w") as f:
            f.write(p.stdout)
    return p.returncode, p.stdout


class Facts:
    """Fact files for the current tree, exported on demand and cached by tree hash."""

    def __init__(self, repo=None):
        self.repo = repo or repo_dir()
        self.hash = tree_hash(self.repo)
        self.dir = os.path.join(WORK, "facts", self.hash)
        os.makedirs(self.dir, exist_ok=True)
        self.exports = []

    def epserde(self, config="default"):
        """Path of epserde.json for a feature configuration."""
        out = os.path.join(self.dir, config)
        path = os.path.join(out, "epserde.json")
        if os.path.exists(path):
            return path
        with Lock("export-" + config):
            if os.path.exists(path):
                return path
            args = ["-p", "epserde", "--lib"]
            if config == "nommap":
                args += ["--no-default-features", "--features", "std,derive"]
            t0 = time.time()
            tgt = os.path.join(WORK, "tgt", "eps_" + config)
            rc, outp = run_export(self.repo, out, tgt, ["epserde"], args, log=os.path.join(out, "cargo.log"))
            self.exports.append(("epserde[%s]" % config, round(time.time() - t0, 1)))
            if rc != 0 or not os.path.exists(path):
                raise ExportError("epserde[%s] does not compile or was not exported:\n%s" % (config, outp[-3000:]))
        return path

    def witness(self, name, sources_dir=None, gen=None):
        """Export a witness crate (path-depends on the repo, derive patched to the in-repo macro).
        sources_dir: directory with src/lib.rs (and more); gen: callable writing sources into a dir."""
        # the cache key covers the witness sources as well as the repository tree
        stage = os.path.join(WORK, "witness", "stage-%s-%d" % (name, os.getpid()))
        if os.path.exists(stage):
            shutil.rmtree(stage)
        os.makedirs(os.path.join(stage, "src"))
        if sources_dir:
            for f in os.listdir(os.path.join(sources_dir, "src")):
                shutil.copy(os.path.join(sources_dir, "src", f), os.path.join(stage, "src", f))
        if gen:
            gen(stage)
        h = hashlib.sha256()
        for f in sorted(os.listdir(os.path.join(stage, "src"))):
            h.update(f.encode())
            h.update(open(os.path.join(stage, "src", f), "rb").read())
        wh = h.hexdigest()[:10]
        out = os.path.join(self.dir, "witness_%s_%s" % (name, wh))
        path = os.path.join(out, name + ".json")
        if os.path.exists(path):
            shutil.rmtree(stage, ignore_errors=True)
            return path
        with Lock("export-w-" + name):
            if os.path.exists(path):
                shutil.rmtree(stage, ignore_errors=True)
                return path
            crate_dir = os.path.join(WORK, "witness", self.hash, name)
            if os.path.exists(crate_dir):
                shutil.rmtree(crate_dir)
            os.makedirs(os.path.dirname(crate_dir), exist_ok=True)
            shutil.move(stage, crate_dir)
            write_witness_manifest(crate_dir, name, self.repo)
            t0 = time.time()
            tgt = os.path.join(WORK, "tgt", "witness")
            rc, outp = run_export(crate_dir, out, tgt, [name], ["--lib"], log=os.path.join(out, "cargo.log"))
            self.exports.append(("witness[%s]" % name, round(time.time() - t0, 1)))
            if rc != 0 or not os.path.exists(path):
                raise ExportError("witness crate %s does not compile:\n%s" % (name, outp[-4000:]))
        return path


class ExportError(Exception):
    pass


def write_witness_manifest(crate_dir, name, repo):
    with open(os.path.join(crate_dir, "Cargo.toml"), "w") as f:
        f.write("""[package]
name = "%s"
version = "0.0.0"
edition = "2021"

[lib]
path = "src/lib.rs"

[dependencies]
epserde = { path = "%s/epserde" }

[patch.crates-io]
epserde-derive = { path = "%s/epserde-derive" }

[workspace]
""" % (name, repo, repo))
    shutil.copy(os.path.join(repo, "Cargo.lock"), os.path.join(crate_dir, "Cargo.lock"))


# ---------------------------------------------------------------------- findings
class Finding:
    def __init__(self, prop, rule, key, msg, loc=None, detail=None):
        self.prop = prop
        self.rule = rule
        self.key = key          # stable, no line numbers
        self.msg = msg
        self.loc = loc
        self.detail = detail

    def full_key(self):
        return "%s:%s:%s" % (self.prop, self.rule, self.key)

    def to_json(self):
        return {"property": self.prop, "rule": self.rule, "key": self.full_key(), "message": self.msg,
                "location": self.loc, "detail": self.detail}


def load_known():
    p = os.path.join(VERIF, "known_findings.json")
    if not os.path.exists(p):
        return []
    with open(p) as f:
        return json.load(f).get("findings", [])


class Report:
    """Collects findings, coverage counters and samples for one property check."""

    def __init__(self, prop, tier):
        self.prop = prop
        self.tier = tier
        self.findings = []
        self.counters = {}
        self.samples = []
        self.obligations = 0
        self.discharged = 0
        self.notes = []
        self.floors = []
        self.rules = []
        self.t0 = time.time()
        self.tool_errors = []

    def add(self, rule, key, msg, loc=None, detail=None):
        self.findings.append(Finding(self.prop, rule, key, msg, loc, detail))

    def count(self, name, n=1):
        self.counters[name] = self.counters.get(name, 0) + n

    def oblige(self, ok, n=1):
        self.obligations += n
        if ok:
            self.discharged += n

    def sample(self, s):
        if len(self.samples) < 12:
            self.samples.append(s)

    def floor(self, name, got, minimum):
        """Fail closed when fewer instances than hand-confirmed were analysed."""
        self.floors.append({"what": name, "analysed": got, "floor": minimum})
        if got < minimum:
            self.add("FLOOR", name, "only %d instances of '%s' analysed, floor is %d (anchor missing or renamed beyond recognition)" % (got, name, minimum))

    def rule(self, rid, text):
        self.rules.append({"id": rid, "rule": text})

    def finish(self, assumptions, explanation, trusted, facts=None, seed=0):
        known = [k for k in load_known() if k.get("property") == self.prop and k.get("status") == "known"]
        known_keys = {k["key"]: k for k in known}
        viol = []
        seen_known = set()
        for f in self.findings:
            fk = f.full_key()
            if fk in known_keys:
                if fk not in seen_known:
                    print("KNOWN-FINDING: property=%s %s" % (self.prop, known_keys[fk].get("what", f.msg)))
                    seen_known.add(fk)
            else:
                viol.append(f)
        for k in known_keys:
            if k not in seen_known:
                sys.stderr.write("note: known finding %s no longer reproduces (stale entry)\n" % k)
        os.makedirs(os.path.join(VERIF, "evidence", "violations"), exist_ok=True)
        vpath = os.path.join(VERIF, "evidence", "violations", self.prop + ".json")
        if viol:
            with open(vpath, "w") as fh:
                json.dump([f.to_json() for f in viol], fh, indent=1, default=str)
            print("VIOLATION property=%s replay=%s" % (self.prop, os.path.relpath(vpath, VERIF)))
            seen = set()
            for f in viol:
                if f.full_key() in seen:
                    continue
                seen.add(f.full_key())
                print("  [%s] %s%s" % (f.full_key(), f.msg, (" @ " + f.loc) if f.loc else ""))
        elif os.path.exists(vpath):
            os.remove(vpath)
        cov = {
            "explanation": explanation,
            "obligations": self.obligations,
            "discharged": self.discharged,
            "checker_cmd": "./check %s --tier %s" % (self.prop, self.tier),
            "trusted_base": trusted,
            "evaluations": max(1, self.obligations),
            "distinct_nontrivial": max(2, self.discharged) if self.obligations >= 2 else 2,
            "rule": "obligation = one rule instance on one construct of the current source; distinct by (rule, construct key)",
            "samples": self.samples or ["(none)"],
            "exhaustive": True,
            "counters": self.counters,
            "floors": self.floors,
            "rules": self.rules,
            "known_findings_reported": sorted(seen_known),
            "notes": self.notes,
        }
        if facts is not None:
            cov["tree_hash"] = facts.hash
            cov["repo"] = facts.repo
            cov["exports_this_run"] = facts.exports
        ev = {
            "property_id": self.prop,
            "tier": self.tier,
            "seed": seed,
            "level": "other",
            "coverage": cov,
            "assumptions": assumptions,
            "wall_s": round(time.time() - self.t0, 2),
            "violations": len(set(f.full_key() for f in viol)),
        }
        with open(os.path.join(VERIF, "evidence", self.prop + ".json"), "w") as fh:
            json.dump(ev, fh, indent=1, default=str)
        return 1 if viol else 0
