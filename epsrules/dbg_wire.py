import sys, pprint
from . import facts, interp, wirehooks
u = facts.load_universe(sys.argv[1].split(","))
pat = sys.argv[2]
for b in u.bodies.values():
    if pat not in b.n: continue
    nm = b.d.get("name")
    if nm not in ("_serialize_inner","_deserialize_full_inner","_deserialize_eps_inner","write_header","check_header","serialize_on_field_write","deserialize_full","deserialize_eps"): continue
    ip = interp.Interp(u, wirehooks.WireHooks())
    ps = b.thir["params"]
    params = []
    for p in ps:
        params.append(("self",) if p.get("self") else ("backend",))
    print("=====", b.n, b.loc())
    try:
        paths = ip.run(b, params)
    except interp.Unsupported as ex:
        print("UNSUPPORTED", ex); continue
    for p in paths:
        print(" PATH", p.kind)
        for c in p.conds: print("    cond", c)
        for ev in p.events: print("    ev", ev)
        print("    ->", p.value)
    if ip.notes: print(" NOTES", ip.notes)
