"""C07 rules: units (M1, M2), the four `align` implementations, zero padding, position accounting."""
from . import facts, interp, wirehooks, constp, rules_header
from .facts import ty_str, unify
from .interp import C, is_c
from .guards import label, outcome_of, norm_cond, row_str

MAXSIZEOF = "epserde::traits::type_info::MaxSizeOf"


def rule_M1(u, rep, crate="wunits", mode="full"):
    """unit(T) is a power of two, >= align_of(T), >= unit of every component.
    mode="borrow": only what an aligned reference needs -- unit(T) is a multiple of align_of(T) (an address that is a
    multiple of the unit is then aligned for T); used by the properties that do not speak about gaps (C03, C12)."""
    cp = constp.ConstP(u)
    n = 0
    for k, (c, aj) in sorted(u.aliases.items()):
        if not k.startswith(crate + "::"):
            continue
        T = c.ty(aj["ty"])
        l = u.layouts.get(T)
        if l is not None:
            T = l["norm"]
            l = u.layouts.get(T) or l
        name = ty_str(T)
        v = cp.unit(T)
        n += 1
        if v is None:
            rep.oblige(False)
            rep.add("M1", "fold:" + name, "alignment unit of `%s` cannot be folded to a constant: %s" % (name, cp.errors.get(T)))
            continue
        if mode == "borrow":
            if l is not None:
                ok = v >= 1 and v % l["align"] == 0
                rep.oblige(ok)
                if not ok:
                    rep.add("M1", "align:" + name, "alignment unit of `%s` is %d, not a multiple of its native alignment %d: an address that is a multiple of the unit need not be aligned for the type" % (name, v, l["align"]))
            continue
        ok = v >= 1 and (v & (v - 1)) == 0
        rep.oblige(ok)
        if not ok:
            rep.add("M1", "pow2:" + name, "alignment unit of `%s` is %d, not a power of two >= 1" % (name, v))
        if l is not None:
            ok = v >= l["align"]
            rep.oblige(ok)
            if not ok:
                rep.add("M1", "align:" + name, "alignment unit of `%s` is %d, smaller than its native alignment %d" % (name, v, l["align"]))
        for ct in constp.components(u, T):
            cv = cp.unit(ct)
            if cv is None:
                continue
            ok = v >= cv
            rep.oblige(ok)
            if not ok:
                rep.add("M1", "field:" + name, "alignment unit of `%s` is %d, smaller than the unit %d of its component `%s`" % (name, v, cv, ty_str(ct)))
        if len(rep.samples) < 6 and T[0] in ("adt", "tuple") and n % 17 == 0:
            rep.sample({"type": name, "unit": v, "align_of": l["align"] if l else None, "size_of": l["size"] if l else None})
    rep.count("closed_types_folded", n)
    return n


def ctor(T):
    if T[0] == "adt":
        return T[1].split("::")[-1]
    if T[0] == "tuple":
        return "tuple%d" % len(T[1])
    if T[0] == "array":
        return "array<%s>" % ctor(T[1])
    return ty_str(T)


def rule_M2(u, rep):
    """Derived zero-copy types: the set of values max_size_of can return is exactly
    {align_of::<Self>()} U {unit(F) : F field type}."""
    cp = constp.ConstP(u)
    n = 0
    for im in u.impls_by_trait.get(MAXSIZEOF, []):
        if not im.derived or im.self_ty[0] != "adt" or im.self_ty[1] not in u.adts:
            continue
        rets = cp.symbolic(im)
        if rets is None:
            rep.add("M2", "extract:" + im.key(), "cannot evaluate the derived max_size_of of %s" % im.key(), im.loc())
            continue
        c, aj = u.adts[im.self_ty[1]]
        want = {("alignof", im.self_ty)}
        l = u.layouts.get(im.self_ty)
        if l is not None:
            want = {C(l["align"])}
        for v in aj["variants"]:
            for f in v["fields"]:
                ft = c.ty(f["ty"])
                if not facts.has_param(ft):
                    fv = cp.unit(ft)
                    want.add(C(fv) if fv is not None else ("unit", ft))
                else:
                    want.add(("unit", ft))
        got = set(p.value for p in rets)
        # closed types fold to a single number: it must be the max of the wanted set
        if all(is_c(x) for x in want) and all(is_c(x) for x in got):
            ok = got == {C(max(x[1] for x in want))}
        else:
            ok = got == want or (got <= want and all(x in got for x in want if not is_c(x)) and any(is_c(x) for x in got) == any(is_c(x) for x in want))
        rep.oblige(ok)
        n += 1
        if not ok:
            rep.add("M2", im.key(), "derived max_size_of of `%s` can return %s; expected the maximum over %s (align_of::<Self>() and the unit of every field)"
                    % (ty_str(im.self_ty), sorted(label(x) for x in got), sorted(label(x) for x in want)), im.loc())
    rep.count("derived_units_checked", n)
    return n


# ---------------------------------------------------------------------- the four align implementations
def run_method(u, b, self_first=True):
    ip = interp.Interp(u, wirehooks.WireHooks())
    params = []
    for p in b.thir["params"]:
        params.append(("self",) if p.get("self") else None)
    return ip, ip.run(b, params)


def is_self_pos(v):
    """the current stream position of self: self.pos() or the field `pos` of self"""
    if isinstance(v, tuple) and v:
        if v[0] == "pos" and v[1] == ("self",):
            return True
        if v[0] == "field" and v[1] == ("self",) and v[3] == "pos":
            return True
    return False


def pad_of_self(v, T):
    return isinstance(v, tuple) and v and v[0] == "pad" and is_self_pos(v[1]) and v[2] == ("unit", T)


def find_align_impls(u):
    """(role, body) for the writer default, and every impl of WriteWithNames::align / ReadWithPos::align."""
    out = []
    for tid, (c, tj) in u.traits.items():
        if tid.endswith("::WriteWithNames") or tid.endswith("::ReadWithPos"):
            for it in tj["items"]:
                if it["name"] == "align":
                    b = u.body(c.def_id(it["d"]))
                    if b is not None and b.thir is not None:
                        out.append(("default " + tid.split("::")[-1], b, "w" if tid.endswith("WriteWithNames") else "r"))
    for im in u.impls:
        if im.trait and (im.trait.endswith("::WriteWithNames") or im.trait.endswith("::ReadWithPos")):
            bid = im.item_id("align")
            b = u.body(bid) if bid else None
            if b is not None and b.thir is not None:
                out.append((ty_str(im.self_ty).split("<")[0], b, "w" if im.trait.endswith("WriteWithNames") else "r"))
    return out


def rule_align_impls(u, rep):
    impls = find_align_impls(u)
    rep.floor("align implementations (writer default, SchemaWriter, ReaderWithPos, SliceWithPos)", len(impls), 4)
    for role, b, side in impls:
        # the type parameter of align::<T>
        gens = [g for g in b.generics if g["kind"] == "type" and not g.get("synthetic") and g["name"] != "Self"]
        own = gens[-1] if gens else None
        T = ("param", own["name"], own["index"]) if own else None
        ip, paths = run_method(u, b)
        oks = [p for p in paths if outcome_of(u, p)[0] == "ok"]
        if not oks:
            rep.add("ALIGN", role + ":paths", "align of %s has no successful path" % role, b.loc())
            continue
        # a scratch buffer of fixed size indexed by the padding: the padding is anything below the unit, and units are
        # as large as the largest alignment a zero-copy type declares (repr(align(N))): folded on a few paddings
        from . import rules_cursor as _rc
        for p in paths:
            for e in p.events:
                if e[0] != "MayPanic" or e[1] != "index":
                    continue
                base, rng = e[3]
                if not (isinstance(base, tuple) and base and base[0] == "bytes" and is_c(base[1]) and isinstance(rng, tuple) and rng and rng[0] == "adt" and "::ops::range::" in rng[1]):
                    continue
                pads = set()

                def find_pads(v, depth=0):
                    if isinstance(v, tuple) and depth < 12:
                        if v and v[0] == "pad":
                            pads.add(v)
                        for y in v:
                            find_pads(y, depth + 1)
                find_pads(rng)
                for c_ in p.conds:
                    find_pads(c_[1] if len(c_) > 1 else None)
                if len(pads) != 1:
                    continue
                pv = list(pads)[0]
                f = dict(rng[3])
                worst = None
                for val in (0, 1, 7, 15, 16, 17, 31, 63, 127, 4095):
                    env = {pv: val, "S": 1}
                    try:
                        if not all(bool(_rc._ev(c_[1], env)) == (c_[0] == "true") for c_ in p.conds if c_[0] in ("true", "false")):
                            continue
                        nmr = rng[1]
                        lo = _rc._ev(f[0], env) if (nmr.endswith("::Range") or nmr.endswith("::RangeFrom")) else 0
                        hi = _rc._ev(f[1], env) if nmr.endswith("::Range") else (_rc._ev(f[0], env) if nmr.endswith("::RangeTo") else base[1][1])
                    except _rc._Unk:
                        continue
                    if not (lo <= hi <= base[1][1]) and worst is None:
                        worst = (val, lo, hi)
                rep.oblige(worst is None)
                if worst is not None:
                    rep.add("ALIGN", role + ":scratch", "align of %s indexes a scratch buffer of %d bytes with %d..%d when the padding is %d: paddings go up to unit(T) - 1, and a zero-copy type with repr(align(N)) has unit N: the reader panics on streams the writer produces"
                            % (role, base[1][1], worst[1], worst[2], worst[0]), e[2])
        for p in oks:
            amount = None
            okp = True
            why = ""
            evs = [e for e in p.events if e[0] in ("W", "R", "Loop", "Store")]
            consumed = None
            for e in evs:
                if e[0] == "Loop":
                    body = tuple(x for x in e[2] if not (isinstance(x, tuple) and x and x[0] == "MayPanic")) if isinstance(e[2], tuple) else e[2]
                    cnt = e[1]
                    if len(body) == 1 and body[0][0] == "W" and body[0][2] == "B" and body[0][3] == C(1):
                        content = body[0][4]
                        zero = isinstance(content, tuple) and content[0] == "bytes" and content[2] == ("elems", (C(0),))
                        rep.oblige(zero)
                        if not zero:
                            rep.add("ALIGN-ZERO", role, "align of %s pads with %s instead of zero bytes" % (role, label(content)), b.loc())
                        if body[0][1] != ("self",):
                            rep.add("ALIGN", role + ":recv", "align of %s writes the padding to %s, not to itself" % (role, label(body[0][1])), b.loc())
                        consumed = cnt
                    elif len(body) == 1 and body[0][0] == "R" and body[0][2] == "B" and body[0][3] == C(1):
                        consumed = cnt
                    else:
                        okp = False
                        why = "unexpected loop body"
                elif e[0] == "W" and e[2] == "B":
                    # padding written in one call: must be a zero-filled buffer
                    consumed = e[3]
                    content = e[4]
                    zero = isinstance(content, tuple) and content[0] in ("vec", "bytes") and ("repeat", C(0)) in content
                    rep.oblige(zero)
                    if not zero:
                        rep.add("ALIGN-ZERO", role, "align of %s pads with %s instead of zero bytes" % (role, label(content)), b.loc())
                elif e[0] == "R" and e[2] == "B":
                    consumed = e[3]
                elif e[0] == "Store" and e[1] == ("self",) and e[2] and e[2][0][2] == "data":
                    v = e[3]
                    if isinstance(v, tuple) and v[0] == "index" and isinstance(v[2], tuple) and v[2][0] == "adt" and v[2][1].endswith("RangeFrom"):
                        consumed = dict(v[2][3]).get(0)
            # conditions: a path on which nothing is consumed must know that the padding is zero
            rows = [norm_cond(c) for c in p.conds]
            if consumed is None:
                zero_known = any(r[0] != "opaque" and r[1] == "Eq" and pad_of_self(r[0], T) and r[2] == C(0) for r in rows)
                rep.oblige(zero_known)
                if not zero_known:
                    rep.add("ALIGN", role + ":skip", "align of %s has a path that consumes/emits nothing without having established that the padding is zero (%s)"
                            % (role, [row_str(r) for r in rows]), b.loc())
                continue
            ok = pad_of_self(consumed, T)
            rep.oblige(ok)
            rep.count("align_paths")
            if not ok:
                rep.add("ALIGN", role + ":amount", "align::<%s> of %s moves by `%s`; every implementation must move by pad_align_to(position of self, <%s as MaxSizeOf>::max_size_of())"
                        % (own["name"] if own else "?", role, label(consumed), own["name"] if own else "?"), b.loc())
        if len(rep.samples) < 10:
            rep.sample({"align_impl": role, "paths": len(oks)})


def rule_pos_accounting(u, rep):
    """WriterWithPos::write_all, ReaderWithPos::read_exact, SliceWithPos::{read_exact, skip}: the position
    advances by exactly the number of bytes moved, after the inner operation succeeded."""
    n = 0
    for im in u.impls:
        if not im.trait:
            continue
        st = ty_str(im.self_ty)
        for meth, inner in (("write_all", "W"), ("read_exact", "R")):
            if not (im.trait.endswith("::WriteNoStd") or im.trait.endswith("::ReadNoStd")):
                continue
            bid = im.item_id(meth)
            b = u.body(bid) if bid else None
            if b is None or b.thir is None:
                continue
            # only the position-tracking wrappers (they have a `pos` field)
            ent = u.adts.get(im.self_ty[1]) if im.self_ty[0] == "adt" else None
            if ent is None or not any(f["name"] == "pos" for v in ent[1]["variants"] for f in v["fields"]):
                continue
            ip, paths = run_method(u, b)
            for p in paths:
                out = outcome_of(u, p)
                stores = [e for e in p.events if e[0] == "Store" and e[1] == ("self",) and e[2] and e[2][0][2] == "pos"]
                moved = None
                order_ok = True
                seen_inner = False
                for e in p.events:
                    if e[0] == inner and e[2] == "B":
                        moved = e[3]
                        seen_inner = True
                    if e[0] == "Store" and e[1] == ("self",) and e[2] and e[2][0][2] == "data":
                        v = e[3]
                        if isinstance(v, tuple) and v[0] == "index" and isinstance(v[2], tuple) and v[2][0] == "adt" and v[2][1].endswith("RangeFrom"):
                            moved = dict(v[2][3]).get(0)
                            seen_inner = True
                    if e[0] == "Store" and e[1] == ("self",) and e[2] and e[2][0][2] == "pos" and not seen_inner:
                        order_ok = False
                if out[0] == "ok":
                    n += 1
                    want = ("bin", "Add", ("field", ("self",), [f for f in range(8) if True][0], "pos"), moved) if False else None
                    ok = len(stores) == 1 and moved is not None and is_pos_plus(stores[0][3], moved) and order_ok
                    rep.oblige(ok)
                    if not ok:
                        rep.add("POS", "%s::%s" % (st.split("<")[0], meth), "%s::%s: on success the position must advance once, by the %s bytes moved, after the inner operation (stores: %s)"
                                % (st, meth, label(moved) if moved is not None else "?", [label(s_[3]) for s_ in stores]), b.loc())
                elif out[0] == "err":
                    ok = not stores
                    rep.oblige(ok)
                    if not ok:
                        rep.add("POS", "%s::%s:err" % (st.split("<")[0], meth), "%s::%s advances the position on a failing path" % (st, meth), b.loc())
    rep.floor("position-tracking wrappers checked (success paths)", n, 3)
    # Serialize::serialize returns the tracked position after all writes
    for tid, (c, tj) in u.traits.items():
        if not tid.endswith("::Serialize"):
            continue
        for it in tj["items"]:
            if it["name"] != "serialize":
                continue
            b = u.body(c.def_id(it["d"]))
            if b is None or b.thir is None:
                continue
            ip = interp.Interp(u, wirehooks.WireHooks())
            paths = ip.run(b, [("self",), ("backend",)])
            for p in paths:
                out = outcome_of(u, p)
                if out[0] != "ok":
                    continue
                v = out[1]
                nev = len([e for e in p.events])
                ok = isinstance(v, tuple) and v and v[0] == "pos" and v[1] == ("backend",) and v[2] == len(p.events)
                rep.oblige(ok)
                if not ok:
                    rep.add("POS", "Serialize::serialize:return", "Serialize::serialize does not return the writer position taken after the last write: %s" % label(v), b.loc())
                rep.count("serialize_return_checked")


def is_pos_plus(v, n):
    if isinstance(v, tuple) and v and v[0] == "bin" and v[1] == "Add":
        a, b = v[2], v[3]
        if is_self_pos(a) and b == n:
            return True
        if is_self_pos(b) and a == n:
            return True
    return False


def rule_flush_forward(u, rep, rule="FLUSH-FWD"):
    """Every wrapper that implements WriteNoStd around another writer (it has the inner writer in a field) forwards
    flush to it and returns its result: a wrapper that answers Ok(()) itself turns the final flush of serialize
    into a no-op, and a buffering backend then loses its last bytes (and their error) at drop time."""
    n = 0
    for im in u.impls:
        if not im.trait or not im.trait.endswith("::WriteNoStd") or im.crate.name != "epserde":
            continue
        if im.self_ty[0] != "adt":
            continue            # the blanket impl over std::io::Write is BLANKET's business
        bid = im.item_id("flush")
        b = u.body(bid) if bid else None
        if b is None or b.thir is None:
            continue
        ip, paths = run_method(u, b)
        n += 1
        oks = [p for p in paths if outcome_of(u, p)[0] in ("ok", "ok?") or (p.kind == "ret")]
        good = True
        for p in paths:
            if p.kind != "ret":
                continue
            fl = [e for e in p.events if e[0] == "W" and e[2] == "Flush"]
            if not fl:
                good = False
        rep.oblige(good)
        if not good:
            rep.add(rule, ty_str(im.self_ty).split("<")[0], "`%s`::flush has a path that returns without flushing the writer it wraps" % ty_str(im.self_ty), b.loc())
    rep.count("flush_wrappers", n)
    return n


def rule_write_bytes_plain(u, rep):
    """WRITE-BYTES: the default WriteWithNames::write_bytes (the one every real writer uses) emits exactly the slice it was
    given, with one write_all(value) on itself: no alignment point, no second write. Padding is decided by the callers
    (align::<T>() once per block), so a self-aligning write_bytes pads between the items of a per-item writer."""
    n = 0
    for tid, (c, tj) in u.traits.items():
        if not tid.endswith("::WriteWithNames"):
            continue
        for it in tj["items"]:
            if it["name"] != "write_bytes":
                continue
            b = u.body(c.def_id(it["d"]))
            if b is None or b.thir is None:
                continue
            ip, paths = run_method(u, b)
            oks = [p for p in paths if outcome_of(u, p)[0] == "ok"]
            if not oks:
                rep.add("WRITE-BYTES", "default:paths", "the default WriteWithNames::write_bytes has no successful path", b.loc())
            for p in oks:
                evs = [e for e in p.events if e[0] in ("W", "A", "Loop")]
                ok = len(evs) == 1 and evs[0][0] == "W" and evs[0][2] == "B" and evs[0][1] == ("self",) and evs[0][4] == ("param", "value")
                rep.oblige(ok)
                n += 1
                if not ok:
                    rep.add("WRITE-BYTES", "default", "the default WriteWithNames::write_bytes must emit exactly the slice it is given with one write_all(value); it emits %s"
                            % [(e[0], e[2] if e[0] == "W" and len(e) > 2 else "", label(e[4]) if e[0] == "W" and len(e) > 4 else "") for e in evs], b.loc())
    return n


def rule_write_delegates(u, rep):
    """WRITE-FWD: the default WriteWithNames::write (the one every real writer uses) hands the value to its own
    writer exactly once, `value._serialize_inner(self)`, on every successful path and for every type: a shortcut for
    some class of types (zero-sized, ...) drops what that type's writer emits (a tag, a length, an alignment point)."""
    n = 0
    for tid, (c, tj) in u.traits.items():
        if not tid.endswith("::WriteWithNames"):
            continue
        for it in tj["items"]:
            if it["name"] != "write":
                continue
            b = u.body(c.def_id(it["d"]))
            if b is None or b.thir is None:
                continue
            ip, paths = run_method(u, b)
            oks = [p for p in paths if outcome_of(u, p)[0] == "ok"]
            if not oks:
                rep.add("WRITE-FWD", "default:paths", "the default WriteWithNames::write has no successful path", b.loc())
            for p in oks:
                evs = [e for e in p.events if e[0] in ("W", "Loop")]
                ok = len(evs) == 1 and evs[0][0] == "W" and evs[0][2] == "F" and evs[0][1] == ("self",) and evs[0][4] == ("param", "value")
                rep.oblige(ok)
                n += 1
                if not ok:
                    rep.add("WRITE-FWD", "default", "the default WriteWithNames::write must delegate exactly once to value._serialize_inner(self) on every successful path; %s it emits %s"
                            % (("under [%s]" % ", ".join(row_str(norm_cond(c)) for c in p.conds)) if p.conds else "", [(e[0], e[2] if e[0] == "W" and len(e) > 2 else "") for e in evs]), b.loc())
    return n


def rule_pad_function(u, rep):
    """PAD: the body of pad_align_to, folded by constant propagation on a grid of (offset, unit) pairs -- every
    power-of-two unit up to 4096 and three large ones, offsets around 0, around multiples of the unit, around 2^32 and
    at the top of usize -- yields (-offset) mod unit: the smallest padding that makes the position a multiple of the
    unit. A body the constant domain cannot fold is left undecided (counted, not reported)."""
    bs = [b for b in u.bodies.values() if b.d.get("name") == "pad_align_to" and b.d.get("krate") == "epserde" and b.kind == "Fn" and b.thir is not None]
    n = 0
    undecided = 0
    M = 1 << 64
    for b in bs:
        ip = interp.Interp(u, wirehooks.WireHooks())
        units = [1 << k for k in range(0, 13)] + [1 << 16, 1 << 31, 1 << 63]
        bad = None
        for a in units:
            offs = set(range(0, min(2 * a + 2, 70)))
            for k in (3, 1000):
                for r in (0, 1, a - 1):
                    offs.add((k * a + r) % M)
            offs.update([(1 << 32) - 1, 1 << 32, (1 << 32) + 1, M - 1, M - 2, (M - a) % M, (M - a - 1) % M, (M - a + 1) % M])
            for v in sorted(offs):
                try:
                    paths = ip.run(b, [C(v), C(a)])
                except (interp.Unsupported, RecursionError):
                    undecided += 1
                    continue
                rets = [p for p in paths if p.kind == "ret"]
                if len(paths) != 1 or len(rets) != 1 or not is_c(rets[0].value):
                    if any(p.kind == "panic" for p in paths) and not rets:
                        bad = bad or (v, a, "a panic")
                        n += 1
                        continue
                    undecided += 1
                    continue
                n += 1
                got = rets[0].value[1]
                want = (-v) % a
                if got != want and bad is None:
                    bad = (v, a, got)
        rep.oblige(bad is None)
        if bad is not None:
            rep.add("PAD", "pad_align_to", "pad_align_to(%d, %d) folds to %s; the padding to the next multiple of the unit is %d" % (bad[0], bad[1], bad[2], (-bad[0]) % bad[1]), b.loc())
    rep.count("pad_grid_points_folded", n)
    rep.count("pad_grid_points_undecided", undecided)
    return n


def rule_pad_format(u, rep, rule="GOLDEN"):
    """Format v1.1 pads with `(-offset) & (unit - 1)`. For power-of-two units that is the distance to the next
    multiple (rule PAD); for the few non-power-of-two units that exist (known finding D15) it is not, but it is what
    existing files contain: folded on a grid of such units, the function must still return exactly that."""
    bs = [b for b in u.bodies.values() if b.d.get("name") == "pad_align_to" and b.d.get("krate") == "epserde" and b.kind == "Fn" and b.thir is not None]
    n = 0
    for b in bs:
        ip = interp.Interp(u, wirehooks.WireHooks())
        bad = None
        for a in (3, 5, 6, 12, 20, 24):
            for v in list(range(0, 50)) + [97, 1000, (1 << 32) + 7]:
                try:
                    paths = ip.run(b, [C(v), C(a)])
                except (interp.Unsupported, RecursionError):
                    continue
                rets = [p for p in paths if p.kind == "ret"]
                if len(paths) != 1 or len(rets) != 1 or not is_c(rets[0].value):
                    continue
                n += 1
                want = ((1 << 64) - v) & (a - 1) if v else 0
                if rets[0].value[1] != want and bad is None:
                    bad = (v, a, rets[0].value[1], want)
        rep.oblige(bad is None)
        if bad is not None:
            rep.add(rule, "pad:non-power-of-two", "format v1.1 pads offset %d to unit %d with %d bytes ((-offset) & (unit - 1)); the current pad_align_to gives %d: files of types with such units (RangeTo/RangeToInclusive over composite indices) change" % (bad[0], bad[1], bad[3], bad[2]), b.loc())
    rep.count("pad_format_points", n)
    return n
