"""Rules about the eps (borrowing) reader: provenance of borrowed results, absence of allocation on
zero-copy paths, no raw carving from the input, the address-alignment guard of SliceWithPos::align."""
from . import facts, interp, wirehooks, guards, rules_align
from .facts import ty_str
from .guards import label, norm_cond, row_str, outcome_of
from .interp import C, is_c

ERR = "epserde::deser::Error"


def find_nodes(v, kinds, acc=None, depth=0):
    if acc is None:
        acc = []
    if not isinstance(v, tuple) or depth > 14:
        return acc
    if v and v[0] in kinds:
        acc.append(v)
    for x in v:
        if isinstance(x, tuple):
            find_nodes(x, kinds, acc, depth + 1)
    return acc


def mentions(v, kinds):
    return bool(find_nodes(v, kinds))


def has_top_raw_block(p):
    return any(a.k == "Z" for a in p.atoms)


def rule_eps_borrow(u, triples, rep, props=("prov", "alloc", "raw")):
    """For every eps path that consumes a raw block at top level."""
    n = 0
    for t in triples:
        for p in t.paths.get("eps", []) or []:
            if p.outcome != "ok":
                continue
            raw = p.raw
            # raw carving from the input buffer (anywhere, any path)
            if "raw" in props:
                bad = [x for x in find_nodes(raw.value, ("rawslice", "ptrto")) if mentions(x, ("bdata", "peek", "tpeek", "peekelem"))]
                for e in raw.events:
                    if e[0] in ("W", "R", "Store"):
                        bad += [x for x in find_nodes(e, ("rawslice",)) if mentions(x, ("bdata", "peek", "tpeek"))]
                rep.oblige(not bad)
                if bad:
                    rep.add("RAW-CARVE", "%s:eps" % t.key, "eps reader of `%s` builds a slice/pointer from the input buffer by hand (%s) instead of bounds-checked slicing" % (t.key, label(bad[0])), t.loc)
            if not has_top_raw_block(p):
                continue
            n += 1
            zst = any(v is True and isinstance(k, tuple) and k and k[0] == "bin" and k[1] == "Eq" and C(0) in (k[2], k[3]) for k, v in p.statics.items())
            if "alloc" in props:
                allocs = [e for e in raw.events if e[0] == "Call" and (e[1] == "alloc" or e[2] in ("to_vec", "to_owned", "collect", "into_vec", "to_string", "from_iter"))]
                vecs = find_nodes(raw.value, ("vec",))
                ok = not allocs and not vecs
                rep.oblige(ok)
                if not ok:
                    what = (allocs[0][5] or allocs[0][2]) if allocs else "a vector"
                    rep.add("HEAPFREE", "%s:eps:%s" % (t.key, p.cond_show()), "the zero-copy eps path of `%s` (%s) allocates: %s" % (t.key, p.show(), what), t.loc)
            if "prov" in props:
                v = raw.value
                peeks = find_nodes(v, ("tpeek",))
                ok = bool(peeks) or (zst and mentions(v, ("call",)) and "dangling" in label(v))
                # the borrowed part must be the block that was consumed (same element type)
                if peeks:
                    ztys = set(a.ty for a in p.atoms if a.k == "Z")
                    flat = set()
                    for pk in peeks:
                        ty = pk[2]
                        while isinstance(ty, tuple) and ty[0] == "array":
                            ty = ty[1]
                        flat.add(ty)
                    ok = ok and bool(flat & ztys)
                rep.oblige(ok)
                if not ok:
                    rep.add("PROV", "%s:eps:%s" % (t.key, p.cond_show()), "the value returned by the zero-copy eps path of `%s` is not a reinterpretation of the consumed bytes of the input (%s)" % (t.key, label(v)[:160]), t.loc)
    rep.count("zero_copy_eps_paths", n)
    return n


def slice_align_impl(u):
    for role, b, side in rules_align.find_align_impls(u):
        if side != "r" or role.startswith("default"):
            continue
        im = u.impl_of_item(b.id)
        if im is None or im.self_ty[0] != "adt":
            continue
        ent = u.adts.get(im.self_ty[1])
        if ent and any(f["name"] == "data" for v in ent[1]["variants"] for f in v["fields"]):
            return role, b
    return None, None


def is_addr_mod_unit(v, T):
    """(self.data.as_ptr() as usize) % unit(T)"""
    if not (isinstance(v, tuple) and v and v[0] == "bin" and v[1] == "Rem"):
        return False
    a, m = v[2], v[3]
    while isinstance(a, tuple) and a and a[0] == "cast":
        a = a[1]
    isptr = isinstance(a, tuple) and a and a[0] == "ptrto" and a[1] == ("elems", ("field", ("self",), a[1][1][2] if False else 0, "data")) if False else \
        (isinstance(a, tuple) and a and a[0] == "ptrto" and isinstance(a[1], tuple) and a[1][0] == "elems" and isinstance(a[1][1], tuple) and a[1][1][0] == "field" and a[1][1][1] == ("self",) and a[1][1][3] == "data")
    return isptr and m == ("unit", T)


def rule_align_guard(u, rep):
    role, b = slice_align_impl(u)
    if b is None:
        rep.add("ANCHOR", "SliceWithPos::align", "cannot locate the align implementation of the slice-backed reader")
        return
    gens = [g for g in b.generics if g["kind"] == "type" and not g.get("synthetic") and g["name"] != "Self"]
    own = gens[-1]
    T = ("param", own["name"], own["index"])
    ip, paths = rules_align.run_method(u, b)
    n_ok = n_err = 0
    for p in paths:
        out = outcome_of(u, p)
        store_idx = None
        for i, e in enumerate(p.events):
            if e[0] == "Store" and e[1] == ("self",) and e[2] and e[2][0][2] == "data":
                store_idx = i
        guard = None
        for c in p.conds:
            if c[0] in ("true", "false", "eq", "else"):
                r = norm_cond(c)
                if r[0] != "opaque" and r[1] in ("Eq", "Ne") and is_addr_mod_unit(r[0], T) and r[2] == C(0):
                    # (`match rem { 0 => .., _ => .. }` carries no event index: the order test below is then left out)
                    guard = (r[1], c[3] if (c[0] in ("true", "false") and len(c) > 3) else None)
        if out[0] == "ok":
            n_ok += 1
            ok = guard is not None and guard[0] == "Eq"
            rep.oblige(ok)
            if not ok:
                rep.add("ALIGN-GUARD", "ok-without-check", "the slice-backed align returns Ok on a path that has not established `address of the remaining data %% unit(T) == 0` (conditions: %s)"
                        % [row_str(norm_cond(c)) for c in p.conds], b.loc())
            elif store_idx is not None and guard[1] is not None and guard[1] <= store_idx:
                rep.oblige(False)
                rep.add("ALIGN-GUARD", "check-before-skip", "the address check of the slice-backed align is evaluated before the padding is skipped", b.loc())
        elif out[0] == "err":
            n_err += 1
            ok = out[1].endswith("AlignmentError") and guard is not None and guard[0] == "Ne"
            rep.oblige(ok)
            if not ok:
                rep.add("ALIGN-GUARD", "err:" + out[1], "the slice-backed align fails with %s under %s; expected AlignmentError exactly when the address is not a multiple of unit(T)"
                        % (out[1], [row_str(norm_cond(c)) for c in p.conds]), b.loc())
    rep.oblige(n_err >= 1)
    if n_err < 1:
        rep.add("ALIGN-GUARD", "no-reject", "the slice-backed align never returns AlignmentError", b.loc())
    rep.count("align_guard_paths", n_ok + n_err)


def rule_load_mem_precheck(u, rep):
    """load_mem refuses types whose native alignment exceeds the alignment of the heap region."""
    found = False
    for b in u.bodies.values():
        if b.d.get("name") != "load_mem" or b.d.get("krate") != "epserde" or b.thir is None:
            continue
        found = True
        ip = interp.Interp(u, wirehooks.WireHooks())
        try:
            paths = ip.run(b, None)
        except interp.Unsupported as ex:
            rep.add("EXTRACT", "load_mem", "cannot analyse load_mem: %s" % ex, b.loc())
            return
        ok = False
        for p in paths:
            out = outcome_of(u, p)
            if out[0] == "err" and "AlignmentError" in (out[1] + str(out[2])):
                rows = [norm_cond(c) for c in p.conds]
                is_al = lambda v: isinstance(v, tuple) and bool(v) and v[0] == "alignof"
                if len(rows) == 1 and rows[0][0] != "opaque" and ((rows[0][1] == "Gt" and is_al(rows[0][0])) or (rows[0][1] == "Lt" and is_al(rows[0][2]))):
                    pre = [e for e in p.events if e[0] == "Call" and e[1] == "std"]
                    if not pre:
                        ok = True
        rep.oblige(ok)
        if not ok:
            rep.add("LOADMEM-PRECHECK", "load_mem", "load_mem has no path that returns AlignmentError when align_of::<Self>() exceeds the alignment of the heap region, before touching the file", b.loc())
    if not found:
        rep.add("ANCHOR", "load_mem", "cannot locate load_mem")


def rule_skeleton_capacity(u, rep, scope_files=("epserde/src/deser/", "epserde/src/impls/"), rule="HEAP-SKELETON"):
    """eps side (functions working on SliceWithPos): a skeleton vector is reserved for exactly the element count read
    from the stream (`Vec::with_capacity(len)` with `len` bound to the length prefix). A capacity computed from the
    remaining input or from element sizes makes the memory requested depend on how long the borrowed sequences are
    (the vector is then under-reserved and regrown for some inputs and not for others)."""
    from . import rules_err
    n = 0
    for b in u.bodies.values():
        if b.thir is None or b.d.get("krate") != "epserde" or not rules_err.in_scope(b, scope_files) or b.kind not in ("Fn", "AssocFn"):
            continue
        if not rules_err.takes_slice_cursor(b):
            continue
        lets = {}

        def find_lets(e):
            if isinstance(e, dict):
                if e.get("k") == "Block":
                    for st in e["b"]["stmts"]:
                        if st.get("k") != "Expr" and "init" in st and st.get("pat", {}).get("name"):
                            lets[st["pat"]["name"]] = st["init"]
                for v in e.values():
                    find_lets(v)
            elif isinstance(e, list):
                for v in e:
                    find_lets(v)
        find_lets(b.thir["root"])
        acc = []
        rules_err.calls_in(b.crate, b.thir["root"], acc)
        for (dj, rj, e) in acc:
            if dj.get("name") not in ("with_capacity", "reserve", "reserve_exact") or dj.get("krate") != "alloc" or not e["args"]:
                continue
            a = e["args"][-1]
            while a.get("k") in ("Use", "NeverToAny") and "e" in a:
                a = a["e"]
            n += 1
            ok = False
            if a.get("k") == "Var":
                init = lets.get(a.get("name"))
                if init is not None:
                    inner = []
                    rules_err.calls_in(b.crate, init, inner)
                    names = [d2.get("name") for d2, _r, _e in inner]
                    ok = "_deserialize_full_inner" in names and all(x in ("_deserialize_full_inner", "branch", "from_residual", "into", "from") for x in names)
            rep.oblige(ok)
            if not ok:
                rep.add(rule, b.n, "`%s` reserves its skeleton vector for something other than the element count read from the stream: the memory an ε-copy deserialization requests would depend on the input beyond the number of items" % b.n, b.crate.span(e["sp"]))
    rep.count("eps_skeleton_reservations", n)
    return n
