"""C17: a type wrongly declared zero-copy can never be emitted as raw memory."""
from . import facts, interp, wirehooks, guards, rules_err, rules_align
from .facts import ty_str, unify
from .guards import label, norm_cond, outcome_of
from .interp import C, is_c

SER = "epserde::ser::SerializeInner"
COPYTYPE = "epserde::traits::copy_type::CopyType"
ZERO = "epserde::traits::copy_type::Zero"


def flat_ty(t):
    while isinstance(t, tuple) and t and t[0] == "array":
        t = t[1]
    return t


def zc_cond_of(c):
    """(type, polarity) when c is a condition on <T as SerializeInner>::IS_ZERO_COPY"""
    if c[0] not in ("true", "false"):
        return None
    v = c[1]
    pol = c[0] == "true"
    while isinstance(v, tuple) and v and v[0] == "un" and v[1] == "Not":
        v = v[2]
        pol = not pol
    if isinstance(v, tuple) and v and v[0] == "assoc" and v[2] == "IS_ZERO_COPY":
        return v[1], pol, (c[3] if len(c) > 3 else None)
    return None


def raw_emissions(evs, acc=None, pre=0):
    """(type, index of the event in the top-level list) of every raw block write"""
    if acc is None:
        acc = []
    for i, e in enumerate(evs):
        if e[0] == "W" and e[2] == "Z":
            acc.append((e[3], i))
        if e[0] == "Loop":
            body = e[2]
            subs = [x[1] for x in body[1]] if (isinstance(body, tuple) and body and body[0] == "alt") else [body]
            for sb in subs:
                for (t, _j) in raw_emissions(sb, []):
                    acc.append((t, i))
    return acc


def write_bytes_impls_guarded(u):
    """True when every implementation of WriteWithNames::write_bytes itself refuses !V::IS_ZERO_COPY before writing."""
    bodies = []
    for tid, (c, tj) in u.traits.items():
        if tid.endswith("::WriteWithNames"):
            for it in tj["items"]:
                if it["name"] == "write_bytes":
                    b = u.body(c.def_id(it["d"]))
                    if b is not None and b.thir is not None:
                        bodies.append(b)
    for im in u.impls:
        if im.trait and im.trait.endswith("::WriteWithNames"):
            b = u.body(im.item_id("write_bytes")) if im.item_id("write_bytes") else None
            if b is not None and b.thir is not None:
                bodies.append(b)
    if not bodies:
        return False
    for b in bodies:
        ip, paths = rules_align.run_method(u, b)
        for p in paths:
            if outcome_of(u, p)[0] != "ok":
                continue
            firstw = next((i for i, e in enumerate(p.events) if e[0] == "W"), None)
            if firstw is None:
                continue
            ok = False
            for c in p.conds:
                z = zc_cond_of(c)
                if z and z[1] and (z[2] is None or z[2] <= firstw):
                    ok = True
            if not ok:
                return False
    return True


def rule_zc_guard(u, triples, rep):
    """Every writer path that emits a raw block has established IS_ZERO_COPY of the emitted type before the
    first byte of the value is written."""
    fallback = None
    n = 0
    for t in triples:
        for p in t.paths.get("ser", []) or []:
            if p.outcome != "ok":
                continue
            raw = p.raw
            ems = raw_emissions(list(raw.events))
            if not ems:
                continue
            firstw = next((i for i, e in enumerate(raw.events) if e[0] in ("W", "Loop")), 0)
            for (V, idx) in ems:
                n += 1
                ok = False
                late = False
                for c in raw.conds:
                    z = zc_cond_of(c)
                    if z and z[1] and flat_ty(z[0]) == flat_ty(V):
                        if z[2] is None or z[2] <= firstw:
                            ok = True
                        else:
                            late = True
                if not ok and not late:
                    if fallback is None:
                        fallback = write_bytes_impls_guarded(u)
                    ok = fallback
                    if ok:
                        late = True   # checked inside write_bytes: after earlier bytes of the value may have been written
                        ok = firstw == idx
                rep.oblige(ok)
                if not ok:
                    rep.add("ZC-GUARD", "%s:%s" % (t.key, ty_str(V)),
                            "`%s`: raw memory of `%s` is emitted %s" % (t.key, ty_str(V),
                            "after bytes of the value have already been written (the IS_ZERO_COPY check comes too late)" if late else "on a path that never checks <%s as SerializeInner>::IS_ZERO_COPY" % ty_str(V)), t.loc)
    rep.count("raw_emission_sites", n)
    # the refusing path exists: a panic path with IS_ZERO_COPY false and nothing written
    m = 0
    for t in triples:
        has_raw = any(raw_emissions(list(p.raw.events)) for p in t.paths.get("ser", []) or [] if p.outcome == "ok")
        if not has_raw:
            continue
        ok = False
        for p in t.paths.get("ser", []) or []:
            if p.outcome == "panic" and not any(e[0] == "W" for e in p.raw.events):
                if any((zc_cond_of(c) or (None, True))[1] is False for c in p.raw.conds):
                    ok = True
        if not ok and fallback is None:
            fallback = write_bytes_impls_guarded(u)
        m += 1
        rep.oblige(ok or bool(fallback))
        if not (ok or fallback):
            rep.add("ZC-GUARD", "%s:no-refusal" % t.key, "`%s` emits raw memory but has no path that panics, before writing, when IS_ZERO_COPY is false" % t.key, t.loc)
    rep.count("raw_emitting_impls", m)
    return n


def rule_szc(u, rep):
    """Built-in impls: literal IS_ZERO_COPY = true only with CopyType::Copy = Zero; Copy = Deep implies a literal false."""
    n = 0
    copy = {}
    for ci in u.impls_by_trait.get(COPYTYPE, []):
        ct = ci.assoc_ty("Copy")
        copy[ci.self_ty] = ct
    for im in u.impls_by_trait.get(SER, []):
        if im.crate.name != "epserde":
            continue
        b = u.body(im.item_id("IS_ZERO_COPY")) if im.item_id("IS_ZERO_COPY") else None
        if b is None or b.thir is None:
            continue
        root = b.thir["root"]
        while root.get("k") in ("Use", "Block") and (root.get("e") or (root.get("b", {}).get("expr") and not root["b"]["stmts"])):
            root = root["e"] if root.get("k") == "Use" else root["b"]["expr"]
        lit = root.get("v") if root.get("k") == "Lit" else None
        ct = None
        for st, c in copy.items():
            m1, m2 = {}, {}
            if unify(st, im.self_ty, m1) and unify(im.self_ty, st, m2):
                ct = c
        if lit is None or ct is None or ct[0] != "adt":
            continue
        n += 1
        zero = ct[1] == ZERO
        ok = (lit == 1) == zero if lit == 1 else True
        if lit == 1 and not zero:
            ok = False
        # ranges are CopyType = Zero but written field by field: literal true is their documented choice
        rep.oblige(ok)
        if not ok:
            rep.add("S-ZC", im.key(), "`%s` claims IS_ZERO_COPY = true but its CopyType::Copy is %s" % (ty_str(im.self_ty), ty_str(ct)), im.loc())
    rep.count("builtin_is_zero_copy_literals", n)
    return n


def rule_derived_const(u, rep):
    """Derived IS_ZERO_COPY mentions <F as SerializeInner>::IS_ZERO_COPY for every field type F."""
    n = 0
    for im in u.impls_by_trait.get(SER, []):
        if not im.derived or im.self_ty[0] != "adt" or im.self_ty[1] not in u.adts:
            continue
        bid = im.item_id("IS_ZERO_COPY")
        b = u.body(bid) if bid else None
        if b is None or b.thir is None:
            continue
        c, aj = u.adts[im.self_ty[1]]
        want = set()
        for v in aj["variants"]:
            for f in v["fields"]:
                want.add(c.ty(f["ty"]))
        got = set()
        lits = []

        def walk(e):
            if isinstance(e, dict):
                if e.get("k") == "NamedConst" and b.crate.defj(e["d"]).get("name") == "IS_ZERO_COPY":
                    a = b.crate.gargs(e["a"])
                    if a:
                        got.add(a[0])
                if e.get("k") == "Lit" and "v" in e:
                    lits.append(e["v"])
                for x in e.values():
                    walk(x)
            elif isinstance(e, list):
                for x in e:
                    walk(x)
        walk(b.thir["root"])
        n += 1
        ok = want <= got
        rep.oblige(ok)
        if not ok:
            rep.add("ZC-CONST", im.key(), "derived IS_ZERO_COPY of `%s` does not depend on the field type(s) %s" % (im.key(), sorted(ty_str(x) for x in want - got)), im.loc())
        # the repr(C) literal
        okl = bool(lits) and lits[0] == (1 if aj["repr_c"] else 0)
        rep.oblige(okl)
        if not okl:
            rep.add("ZC-CONST", im.key() + ":repr", "derived IS_ZERO_COPY of `%s` does not start from the repr(C) flag of the item (%s)" % (im.key(), aj["repr_c"]), im.loc())
    rep.count("derived_is_zero_copy_consts", n)
    return n


def rule_zerocopy_supers(u, rep):
    """ZeroCopy: CopyType<Copy = Zero> + Copy + MaxSizeOf + 'static."""
    for tid, (c, tj) in u.traits.items():
        if tid.endswith("::ZeroCopy") and tid.startswith("epserde::"):
            ss = " ".join(x["s"] for x in tj["supers"])
            for need, pretty in (("Copy", "core::marker::Copy"), ("MaxSizeOf", "MaxSizeOf"), ("'static", "'static"), ("CopyType", "CopyType")):
                ok = need in ss
                rep.oblige(ok)
                if not ok:
                    rep.add("S-ZC", "ZeroCopy:super:" + need, "the ZeroCopy marker no longer requires %s (supertraits: %s)" % (pretty, ss))
            ok = "Copy = epserde::traits::copy_type::Zero" in ss or "Copy == epserde::traits::copy_type::Zero" in ss or "Zero" in ss
            rep.oblige(ok)
            if not ok:
                rep.add("S-ZC", "ZeroCopy:super:Zero", "the ZeroCopy marker no longer requires CopyType<Copy = Zero>")
            return True
    rep.add("ANCHOR", "ZeroCopy", "cannot locate the ZeroCopy marker trait")
    return False


# generic std types with built-in impls that are Copy (so ZeroCopy whenever their parameter is): probes/C17/zc_std_*.rs
# keep this list honest (RangeTo<u8>: ZeroCopy compiles, Range<u8>: ZeroCopy does not)
COPY_STD_GENERICS = {"core::ops::range::RangeTo", "core::ops::range::RangeToInclusive"}


def rule_image_params(u, ts, rep):
    """Built-in composite types that are written as one raw memory image of Self (arrays, tuples): the image
    contains values of the type parameters, so IS_ZERO_COPY must be (at most) the conjunction of the parameters'
    own IS_ZERO_COPY. A literal `true` lets a wrongly declared element type through the run-time check."""
    n = 0
    for t in ts:
        im = t.ser_impl
        if im is None or im.crate.name != "epserde" or im.derived:
            continue
        params = set()

        def collect(ty, depth=0):
            if not isinstance(ty, tuple) or depth > 8:
                return
            if ty and ty[0] == "param":
                params.add(ty)
                return
            if ty and ty[0] in ("ref", "ptr"):
                return                      # behind a pointer: not part of the image
            for x in ty:
                if isinstance(x, tuple):
                    collect(x, depth + 1)
        # containers written as one raw image themselves (arrays, tuples), and every other built-in type that
        # declares CopyType::Copy = Zero: as an element of a slice / array / zero-copy struct its memory image is
        # written raw, under the element's own IS_ZERO_COPY
        zero_decl = False
        for ci in u.impls_by_trait.get(COPYTYPE, []):
            m1 = {}
            if unify(ci.self_ty, im.self_ty, m1) and unify(im.self_ty, ci.self_ty, {}):
                ct = ci.assoc_ty("Copy")
                zero_decl = bool(ct) and ct[0] == "adt" and ct[1] == ZERO
        if im.self_ty[0] == "adt" and im.self_ty[1].startswith(("core::", "std::", "alloc::")) and im.self_ty[1] not in COPY_STD_GENERICS:
            continue            # Range, RangeFrom, RangeInclusive are not Copy, hence never ZeroCopy; PhantomData holds no T
        if im.self_ty[0] not in ("tuple", "array") and not (im.self_ty[0] == "adt" and zero_decl):
            continue
        collect(im.self_ty)
        params = {p_ for p_ in params if not (len(p_) > 1 and isinstance(p_[1], str) and p_[1].isupper() and len(p_[1]) == 1 and False)}
        tparams = {p_ for p_ in params if any(g["kind"] == "type" and g["name"] == p_[1] for g in (im.generics or []))}
        if not tparams:
            continue
        raw_self = any(a.k == "Z" and a.ty == im.self_ty for p in (t.paths.get("ser") or []) if p.outcome == "ok" for a in p.atoms)
        if not raw_self and not (im.self_ty[0] == "adt" and zero_decl):
            continue
        bid = im.item_id("IS_ZERO_COPY")
        b = u.body(bid) if bid else None
        if b is None or b.thir is None:
            continue
        got = set()

        def walk(e):
            if isinstance(e, dict):
                if e.get("k") == "NamedConst" and b.crate.defj(e["d"]).get("name") == "IS_ZERO_COPY":
                    a = b.crate.gargs(e["a"])
                    if a:
                        got.add(a[0])
                for x in e.values():
                    walk(x)
            elif isinstance(e, list):
                for x in e:
                    walk(x)
        walk(b.thir["root"])
        n += 1
        missing = {p_ for p_ in tparams if not any(g == p_ or (isinstance(g, tuple) and g[:2] == p_[:2]) for g in got)}
        rep.oblige(not missing)
        if missing:
            rep.add("ZC-PARAM", im.key(), "`%s` is written as one raw image (itself, or as an element of a zero-copy sequence), which contains values of %s, but its IS_ZERO_COPY does not depend on %s::IS_ZERO_COPY: "
                    "an element type wrongly declared zero-copy passes the run-time check through this container"
                    % (ty_str(im.self_ty), sorted(p_[1] for p_ in tparams), sorted(p_[1] for p_ in missing)), im.loc())
    rep.count("builtin_raw_image_containers", n)
    return n
