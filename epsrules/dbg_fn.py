import sys
from . import facts, interp, wirehooks
u = facts.load_universe(sys.argv[1].split(","))
pat = sys.argv[2]
for b in u.bodies.values():
    if pat not in b.n and pat not in b.id: continue
    if b.thir is None or b.kind not in ("Fn","AssocFn"): continue
    ip = interp.Interp(u, wirehooks.WireHooks())
    ps = b.thir["params"]
    params = []
    for p in ps:
        nm = p["pat"].get("name") if "pat" in p and p["pat"]["k"]=="Binding" else None
        params.append(("self",) if p.get("self") else (("backend",) if nm=="backend" else None))
    print("=====", b.n, b.loc())
    try:
        paths = ip.run(b, params)
    except interp.Unsupported as ex:
        print("UNSUPPORTED", ex); continue
    for p in paths:
        print(" PATH", p.kind)
        for c in p.conds: print("    cond", c)
        for ev in p.events: print("    ev", ev)
        print("    ->", p.value)
    if ip.notes: print(" NOTES", ip.notes)
