"""H1-H4 over the hash recipes of every TypeHash / AlignHash impl."""
import os
import re

from . import facts, hashrec, interp
from .facts import ty_str, unify
from .hashrec import TH, AH, recipe_of, feed_str, params_in
from .guards import label
from .interp import C, is_c

VEC = "alloc::vec::Vec"
COPYTYPE = "epserde::traits::copy_type::CopyType"
MAXSIZEOF = "epserde::traits::type_info::MaxSizeOf"
ZERO = "epserde::traits::copy_type::Zero"


def collect(u, rep):
    """All recipes: {(trait, impl)} -> dict(feeds, conds, impl, paths)"""
    out = []
    for trait, kind, meth in ((TH, "type", "type_hash"), (AH, "align", "align_hash")):
        for im in u.impls_by_trait.get(trait, []):
            bid = im.item_id(meth)
            b = u.body(bid) if bid else None
            if b is None or b.thir is None:
                # an impl that does not define the method inherits the trait's provided body, if there is one
                ent = u.traits.get(trait)
                if ent is not None:
                    for it in ent[1]["items"]:
                        if it["name"] == meth:
                            b = u.body(ent[0].def_id(it["d"]))
            if b is None or b.thir is None:
                rep.add("EXTRACT", "%s:%s" % (kind, im.key()), "no body for %s of %s" % (meth, im.key()), im.loc())
                continue
            try:
                ip, rs = recipe_of(u, b, kind)
            except (interp.Unsupported, RecursionError) as ex:
                rep.add("EXTRACT", "%s:%s" % (kind, im.key()), "cannot extract the %s recipe of %s: %s" % (kind, im.key(), ex), im.loc())
                continue
            out.append({"kind": kind, "impl": im, "paths": rs, "body": b})
            rep.count("recipes_" + kind)
    return out


def feeds_key(feeds):
    return [feed_str(f) for f in feeds]


def mentioned_params(feeds):
    acc = set()
    for f in feeds:
        if f[0] in ("Rec", "RecA"):
            params_in(f[1], acc)
        if f[0] == "Usz":
            params_in_value(f[1], acc)
    return acc


def params_in_value(v, acc, depth=0):
    if not isinstance(v, tuple) or depth > 10:
        return
    if v and v[0] == "cparam":
        acc.add(v[1])
        return
    if v and v[0] in ("sizeof", "alignof", "unit"):
        params_in(v[1], acc)
        return
    for x in v:
        if isinstance(x, tuple):
            params_in_value(x, acc, depth + 1)


def is_alias_recipe(r):
    """recipe that only delegates to another type (documented aliases)"""
    ps = [p for p in r["paths"] if p[2].kind == "ret"]
    return len(ps) == 1 and len(ps[0][1]) == 1 and ps[0][1][0][0] in ("Rec", "RecA") and ps[0][1][0][1] != r["impl"].self_ty


def rule_H2(u, recipes, triples, rep):
    """Every type/const parameter of the self type is fed into the type hash; every parameter whose
    values are written to the stream is fed into the alignment hash."""
    written = {}
    if triples:
        for t in triples:
            if t.ser_impl is None:
                continue
            ps = set()
            for p in t.paths.get("ser", []) or []:
                if p.outcome != "ok":
                    continue

                def walk(atoms):
                    for a in atoms:
                        if a.k in ("F", "Z") and a.ty is not None:
                            params_in(a.ty, ps)
                        if a.k == "R":
                            walk(a.body)
                walk(p.atoms)
            written[t.ser_impl.self_ty] = ps
    for r in recipes:
        im = r["impl"]
        if is_alias_recipe(r):
            continue
        selfp = params_in(im.self_ty)
        for (conds, feeds, p) in r["paths"]:
            if p.kind != "ret":
                continue
            fed = mentioned_params(feeds)
            if r["kind"] == "type":
                need = set(selfp)
            else:
                need = None
                for st, ps in written.items():
                    m1, m2 = {}, {}
                    if unify(st, im.self_ty, m1) and unify(im.self_ty, st, m2):
                        need = set(ps) & selfp
                if need is None:
                    continue
                # static early exits (N == 0) legitimately feed nothing
                if conds and not feeds:
                    continue
            missing = need - fed
            rep.oblige(not missing)
            rep.count("H2_instances")
            for m in sorted(missing):
                rep.add("H2", "%s:%s:%s" % (r["kind"], im.key(), m),
                        "%s recipe of `%s` [%s] does not depend on parameter %s%s"
                        % ("type hash" if r["kind"] == "type" else "alignment hash", ty_str(im.self_ty), " ".join(feeds_key(feeds)), m,
                           "" if r["kind"] == "type" else ", whose values are written to the stream (sibling wrappers recurse into their payload)"), im.loc())


def rule_H3(u, recipes, rep):
    """Leading literals of the type-hash recipes of different type constructors differ."""
    heads = {}
    for r in recipes:
        if r["kind"] == "type" and is_alias_recipe(r):
            # a type hash that is entirely the hash of another type makes the two indistinguishable in the header:
            # allowed only for the documented write-only views of the vector
            st = r["impl"].self_ty
            is_view = (st[0] == "ref" and st[2][0] == "slice") or (st[0] == "adt" and st[1].endswith("::SerIter"))
            rep.oblige(is_view)
            if not is_view:
                tgt = [p for p in r["paths"] if p[2].kind == "ret"][0][1][0][1]
                rep.add("H3", "alias:" + r["impl"].key(), "the type hash of `%s` is entirely that of `%s`: files written as one are accepted as the other (only &[T] and SerIter are documented aliases, of Vec<T>)"
                        % (ty_str(st), ty_str(tgt)), r["impl"].loc())
            continue
        if r["kind"] != "type":
            continue
        im = r["impl"]
        for (conds, feeds, p) in r["paths"]:
            if p.kind != "ret" or not feeds:
                continue
            if feeds[0][0] != "Str":
                rep.add("H3", "head:" + im.key(), "type hash of `%s` does not start with a literal naming the type constructor: %s" % (ty_str(im.self_ty), feeds_key(feeds)[:2]), im.loc())
                continue
            # derived types: the head is the copy kind, the constructor name comes after the const params
            names = [f[1] for f in feeds if f[0] == "Str"]
            ctor = ctor_of(im.self_ty)
            heads.setdefault(tuple(names[:1]) if not im.derived else ("derived", tuple(n for n in names)[:3]), []).append((ctor, im))
    # A variadic family that shares one head (the tuples of every arity, with the unit) must make each recipe
    # self-delimiting: after the head only the element recipes follow, so without an arity-dependent literal or a
    # closing literal the pre-order of a nested tuple does not determine its shape: ((A, B), C) and ((A, B, C),) both
    # feed "()" "()" A B C.
    fam = []
    for r in recipes:
        if r["kind"] != "type" or is_alias_recipe(r):
            continue
        st = r["impl"].self_ty
        if st[0] == "tuple" and st[1]:
            for (conds, feeds, p) in r["paths"]:
                if p.kind == "ret" and feeds:
                    fam.append((len(st[1]), feeds, r["impl"]))
    if fam:
        heads_ = set(f[1][0][1] for f in fam if f[1][0][0] == "Str")
        delimited = all(any(x[0] != "Rec" for x in feeds[1:]) for (_n, feeds, _im) in fam)
        rep.count("H3_tuple_arities", len(fam))
        ok = len(heads_) > 1 or delimited
        rep.oblige(ok)
        if not ok:
            rep.add("H3", "arity:tuple", "the type hashes of the %d tuple arities share the head %s and feed nothing but their element hashes after it: the arity is not encoded, so nested tuples with the same pre-order collide (PhantomData<((A, B), C)> and PhantomData<((A, B, C),)> have one type hash) and a file is accepted as a type with different generic arguments"
                    % (len(fam), sorted(heads_)), fam[0][2].loc())
    for head, lst in heads.items():
        ctors = set(c for c, _ in lst)
        # unit and tuples deliberately share "()" ; everything else must be unique
        ctors_nt = set(c for c in ctors if not c.startswith("tuple") and c != "unit")
        ok = len(ctors_nt) <= 1 and not (ctors_nt and (ctors - ctors_nt))
        rep.oblige(ok)
        rep.count("H3_heads")
        if not ok:
            rep.add("H3", "head:%s" % (head,), "type constructors %s share the type-hash head %s" % (sorted(ctors), head), lst[0][1].loc())


def ctor_of(t):
    if t[0] == "adt":
        return t[1]
    if t[0] == "tuple":
        return "unit" if not t[1] else "tuple"
    if t[0] == "prim":
        return "prim:" + t[1]
    if t[0] == "array":
        return "array"
    if t[0] == "slice":
        return "slice"
    if t[0] == "ref":
        return "ref:" + ctor_of(t[2])
    return t[0]


def rule_H4(u, recipes, rep):
    """&[T] and SerIter<T,_> hash exactly like Vec<T> (both hashes)."""
    n = 0
    for r in recipes:
        im = r["impl"]
        st = im.self_ty
        is_view = (st[0] == "ref" and st[2][0] == "slice") or (st[0] == "adt" and st[1].endswith("::SerIter"))
        if not is_view:
            continue
        elem = st[2][1] if st[0] == "ref" else [a for a in st[2] if a != ("lt",)][0]
        ps = [p for p in r["paths"] if p[2].kind == "ret"]
        ok = len(ps) == 1 and len(ps[0][1]) == 1 and ps[0][1][0][0] in ("Rec", "RecA") and \
            ps[0][1][0][1][0] == "adt" and ps[0][1][0][1][1] == VEC and ps[0][1][0][1][2][0] == elem
        if ok and r["kind"] == "align":
            ok = ps[0][1][0][2][0] == "threaded"
        rep.oblige(ok)
        n += 1
        if not ok:
            rep.add("H4", "%s:%s" % (r["kind"], im.key()), "%s hash of the view `%s` is not exactly that of Vec<%s>: %s"
                    % (r["kind"], ty_str(st), ty_str(elem), [feeds_key(p[1]) for p in ps]), im.loc())
    rep.floor("view hash recipes (&[T], SerIter x type/align)", n, 4)
    # SerType of the views
    for im in u.impls_by_trait.get("epserde::ser::SerializeInner", []):
        st = im.self_ty
        is_view = (st[0] == "ref" and st[2][0] == "slice") or (st[0] == "adt" and st[1].endswith("::SerIter"))
        if not is_view:
            continue
        elem = st[2][1] if st[0] == "ref" else [a for a in st[2] if a != ("lt",)][0]
        sert = im.assoc_ty("SerType")
        ok = sert is not None and sert[0] == "adt" and sert[1] == VEC and sert[2][0] == elem
        rep.oblige(ok)
        if not ok:
            rep.add("H4", "sertype:" + im.key(), "SerType of the view `%s` is `%s`, expected Vec<%s>" % (ty_str(st), ty_str(sert) if sert else None, ty_str(elem)), im.loc())


# ------------------------------------------------------------------ H1 for derived impls
def source_reprs(crate, aj):
    """Texts of the #[repr(..)] attributes preceding an ADT definition, read from the source."""
    dj = crate.defj(aj["d"])
    return None


def adt_attrs_from_source(path, line):
    """Attributes (repr strings, zero_copy, deep_copy) of the item whose definition starts at `line`."""
    try:
        lines = open(path).read().split("\n")
    except OSError:
        return None
    reprs = []
    flags = set()
    i = line - 2
    while i >= 0:
        l = lines[i].strip()
        if l.startswith("#["):
            for m in re.finditer(r"#\[repr\((.*?)\)\]", l):
                reprs.insert(0, m.group(1).strip())
            if "zero_copy" in l:
                flags.add("zero_copy")
            if "deep_copy" in l:
                flags.add("deep_copy")
            i -= 1
            continue
        if l.startswith("///") or l.startswith("//") or l == "":
            i -= 1
            continue
        break
    return reprs, flags


def norm_tokens(s):
    return re.sub(r"\s+", "", s)


def expected_derived(u, im, kind, crate_src_dir):
    """Recipe the derive macro must produce for the ADT of `im`, computed from the definition."""
    st = im.self_ty
    ent = u.adts.get(st[1])
    if ent is None:
        return None
    c, aj = ent
    name = st[1].split("::")[-1]
    dj = c.defj(aj["d"])
    consts = [g["name"] for g in aj["generics"] if g["kind"] == "const"]
    # copy kind from the CopyType impl; TypeInfo-only derives have none: zero-copy iff a MaxSizeOf impl was derived
    zero = None
    for ci in u.impls_by_trait.get(COPYTYPE, []):
        m1, m2 = {}, {}
        if unify(ci.self_ty, st, m1) and unify(st, ci.self_ty, m2):
            ct = ci.assoc_ty("Copy")
            zero = ct is not None and ct[1] == ZERO
    if zero is None:
        zero = False
        for mi in u.impls_by_trait.get(MAXSIZEOF, []):
            m1, m2 = {}, {}
            if mi.derived and unify(mi.self_ty, st, m1) and unify(st, mi.self_ty, m2):
                zero = True
    is_enum = aj["kind"] == "enum"
    exp = []
    if kind == "type":
        exp.append("Str(%r)" % ("ZeroCopy" if zero else "DeepCopy"))
        for n in consts:
            exp.append("Usz(const %s)" % n)
        for n in consts:
            exp.append("Str(%r)" % n)
        exp.append("Str(%r)" % name)
        if not is_enum:
            v = aj["variants"][0]
            for i, f in enumerate(v["fields"]):
                exp.append("Str(%r)" % f["name"])
            for f in v["fields"]:
                exp.append("Rec(%s)" % ty_str(c.ty(f["ty"])))
        else:
            for v in aj["variants"]:
                exp.append("Str(%r)" % v["name"])
                for i, f in enumerate(v["fields"]):
                    exp.append("Str(%r)" % f["name"])
                    exp.append("Rec(%s)" % ty_str(c.ty(f["ty"])))
        return exp
    # alignment hash
    if zero:
        sz = u.layouts.get(st)
        exp.append("Usz(%s)" % (sz["size"] if sz else "size_of<%s>" % ty_str(st)))
        exp.append("REPRS")
    off0 = "offset" if (zero or is_enum) else None
    if not is_enum:
        cur = "offset"
        for f in aj["variants"][0]["fields"]:
            ft = c.ty(f["ty"])
            if zero:
                exp.append("RecA(%s,threaded(%s))" % (ty_str(ft), cur))
                cur = "after(%s,%s)" % (ty_str(ft), cur)
            else:
                exp.append("RecA(%s,fresh(0))" % ty_str(ft))
    else:
        for v in aj["variants"]:
            cur = "offset" if zero else "0"
            for f in v["fields"]:
                ft = c.ty(f["ty"])
                exp.append("RecA(%s,threaded(%s))" % (ty_str(ft), cur))
                cur = "after(%s,%s)" % (ty_str(ft), cur)
    return exp


def rule_H1_derived(u, recipes, rep, src_dirs):
    n = 0
    for r in recipes:
        im = r["impl"]
        if not im.derived or im.crate.name == "epserde":
            continue
        if im.self_ty[0] != "adt":
            continue
        exp = expected_derived(u, im, r["kind"], src_dirs)
        if exp is None:
            continue
        ps = [p for p in r["paths"] if p[2].kind == "ret"]
        if len(ps) != 1:
            rep.add("H1", "%s:%s:paths" % (r["kind"], im.key()), "derived %s hash of `%s` has %d paths" % (r["kind"], im.key(), len(ps)), im.loc())
            continue
        got = feeds_key(ps[0][1])
        # repr strings: compare against the attributes in the source
        if "REPRS" in exp:
            i = exp.index("REPRS")
            ent = u.adts.get(im.self_ty[1])
            c, aj = ent
            dj = c.defj(aj["d"])
            reprs = None
            b_sp = None
            # definition location: any impl item span shares the derive location = the item's attribute line
            src = src_dirs.get(c.name)
            if src:
                # find "struct Name" / "enum Name" in the source
                text = open(src).read().split("\n")
                nm = im.self_ty[1].split("::")[-1]
                for li, l in enumerate(text):
                    if re.search(r"\b(struct|enum)\s+%s\b" % re.escape(nm), l):
                        reprs = adt_attrs_from_source(src, li + 1)
                        break
            if reprs is None:
                exp = exp[:i] + exp[i + 1:]
                got = [g for g in got if not (g.startswith("Str(") and got.index(g) >= i and got.index(g) < i + 4 and "RecA" not in g)]
            else:
                exp = exp[:i] + ["Str(%r)" % x for x in reprs[0]] + exp[i + 1:]
                got = [("Str(%r)" % norm_tokens(g[5:-2])) if g.startswith("Str(") else g for g in got]
                exp = [("Str(%r)" % norm_tokens(g[5:-2])) if g.startswith("Str(") else g for g in exp]
        ok = got == exp
        rep.oblige(ok)
        n += 1
        if not ok:
            rep.add("H1", "%s:%s" % (r["kind"], im.key()), "derived %s hash of `%s` feeds [%s]; the definition requires [%s]"
                    % (r["kind"], im.key(), " ".join(got), " ".join(exp)), im.loc())
        elif len(rep.samples) < 10:
            rep.sample({"derived_recipe": im.key(), "kind": r["kind"], "feeds": got})
    rep.count("H1_derived_recipes", n)
    return n
