"""GUARDS: guard tables of validating functions, extracted from interpreter paths.

A guard row is  (value tested, relation, reference value) -> outcome on failure.
Relations are normalised (negations pushed in, operands ordered) so the table does not
depend on whether the source says `if a != b {err}` / `if !(a == b) {err}` / `match`.
"""
from . import facts, interp, wirehooks
from .facts import ty_str
from .interp import C, is_c

RESULT = "core::result::Result"

NEG = {"Eq": "Ne", "Ne": "Eq", "Lt": "Ge", "Ge": "Lt", "Gt": "Le", "Le": "Gt"}
FLIP = {"Eq": "Eq", "Ne": "Ne", "Lt": "Gt", "Gt": "Lt", "Le": "Ge", "Ge": "Le"}


def label(v, depth=0):
    """Provenance label of an abstract value (stable across refactors)."""
    if not isinstance(v, tuple) or not v or depth > 8:
        return str(v)
    k = v[0]
    if k == "c":
        return str(v[1])
    if k == "namedc":
        return v[1].split("::", 1)[-1] if v[1].startswith("epserde::") else v[1]
    if k == "atom":
        return "read#%d" % v[1]
    if k == "cast":
        # widening of a value that was read (at most 64 bits) to usize/u64 preserves it
        if v[2] in (("prim", "usize"), ("prim", "u64")) and isinstance(v[1], tuple) and v[1] and v[1][0] in ("atom", "tryok", "unwrapped"):
            return label(v[1], depth + 1)
        return "%s as %s" % (label(v[1], depth + 1), ty_str(v[2]))
    if k in ("tryok", "unwrapped", "into"):
        return label(v[1], depth + 1)
    if k == "cparam":
        return "const " + v[1]
    if k == "sym":
        return v[1]
    if k == "after":
        return "after(%s,%s)" % (ty_str(v[1]), label(v[2], depth + 1))
    if k == "sizeof":
        return "size_of<%s>" % ty_str(v[1])
    if k == "alignof":
        return "align_of<%s>" % ty_str(v[1])
    if k == "unit":
        return "unit<%s>" % ty_str(v[1])
    if k == "typename":
        return "type_name<%s>" % ty_str(v[1])
    if k == "s":
        return repr(v[1])
    if k == "self":
        return "self"
    if k == "param":
        return v[1]
    if k == "field":
        return "%s.%s" % (label(v[1], depth + 1), v[3])
    if k == "len":
        return "len(%s)" % label(v[1], depth + 1)
    if k == "itercount":
        return "items_yielded(%s)" % label(v[2], depth + 1)
    if k == "bin":
        return "(%s %s %s)" % (label(v[2], depth + 1), v[1], label(v[3], depth + 1))
    if k == "un":
        return "%s(%s)" % (v[1], label(v[2], depth + 1))
    if k == "pad":
        return "pad_align_to(%s,%s)" % (label(v[1], depth + 1), label(v[2], depth + 1))
    if k == "mutated":
        # hasher fed by a call
        callee, targs = v[4] if len(v) > 4 else (v[1], ())
        t = [ty_str(a) for a in targs if isinstance(a, tuple) and a != ("lt",)]
        base = label(v[2], depth + 1)
        extra = ",".join(label(a, depth + 1) for a in v[3])
        return "%s<-%s<%s>(%s)" % (base, callee.split("::")[-2] + "::" + callee.split("::")[-1] if "::" in callee else callee, t[0] if t else "", extra)
    if k == "call":
        nm = v[1]
        if nm == "finish":
            return "finish(%s)" % label(v[2][0], depth + 1)
        if nm == "to_string":
            return label(v[2][0], depth + 1)
        if nm == "new" and not v[2]:
            callee = v[3][0] if v[3] else ""
            return "new:" + (callee.split("::")[0] if callee else "?")
        return "%s(%s)" % (nm, ",".join(label(a, depth + 1) for a in v[2]))
    if k == "adt":
        return "%s#%d{%s}" % (v[1].split("::")[-1], v[2], ",".join("%d:%s" % (i, label(x, depth + 1)) for i, x in v[3]))
    if k == "tuple":
        return "(%s)" % ",".join(label(x, depth + 1) for x in v[1])
    if k == "peekelem":
        return "next_byte[%s]" % label(v[1], depth + 1)
    return k


def _unsigned_norm(r):
    """comparisons of an unsigned quantity with 0 / 1 that say "is zero" / "is not zero" get one spelling"""
    a, rel, b, nm = r
    if b == ("c", 1) and rel == "Ge":
        return (a, "Ne", ("c", 0), None)
    if b == ("c", 1) and rel == "Lt":
        return (a, "Eq", ("c", 0), None)
    if b == ("c", 0) and rel == "Gt" and _is_unsigned_expr(a):
        return (a, "Ne", ("c", 0), None)
    if b == ("c", 0) and rel == "Le" and _is_unsigned_expr(a):
        return (a, "Eq", ("c", 0), None)
    return r


def _is_unsigned_expr(a):
    return isinstance(a, tuple) and bool(a) and a[0] in ("cparam", "len", "sizeof", "alignof", "unit", "pad")


def norm_cond(c):
    """-> (lhs, rel, rhs, rhs_name) or ('opaque', c)"""
    k = c[0]
    if k == "eq":
        return (c[1], "Eq", c[2], c[3])
    if k == "else":
        # none of the listed constants
        eqs = [n for n in c[2] if n[0] == "eq"]
        if len(eqs) == 1 and len(c[2]) == 1:
            return _unsigned_norm((c[1], "Ne", eqs[0][2], eqs[0][3]))       # `match x { k => .., _ => .. }` is `x != k`
        return (c[1], "NotIn", tuple((n[2], n[3]) for n in eqs), None)
    if k in ("true", "false"):
        v = c[1]
        pol = k == "true"
        while isinstance(v, tuple) and v and v[0] == "un" and v[1] == "Not":
            v = v[2]
            pol = not pol
        if isinstance(v, tuple) and v and v[0] == "bin" and v[1] in NEG:
            rel = v[1] if pol else NEG[v[1]]
            a, b = v[2], v[3]
            # the tested (read) value goes to the left
            if mentions_atom(b) and not mentions_atom(a):
                a, b = b, a
                rel = FLIP[rel]
            return _unsigned_norm((a, rel, b, None))
        return (v, "Truth" if pol else "Falsity", None, None)
    return ("opaque", c)


def mentions_atom(v, depth=0):
    if not isinstance(v, tuple) or depth > 8:
        return False
    if v and v[0] in ("atom", "peekelem"):
        return True
    return any(mentions_atom(x, depth + 1) for x in v if isinstance(x, tuple))


def row_str(r):
    if r[0] == "opaque":
        return "opaque(%s)" % str(r[1])[:80]
    lhs, rel, rhs, name = r
    if rel == "NotIn":
        return "%s not in {%s}" % (label(lhs), ",".join((n or label(x)).split("::")[-1] for x, n in rhs))
    if rel in ("Truth", "Falsity"):
        return "%s is %s" % (label(lhs), rel)
    rn = name.split("::", 1)[-1] if name else label(rhs)
    return "%s %s %s" % (label(lhs), rel, rn)


def outcome_of(u, path):
    """('ok', value) | ('err', variant_name, {field: label}) | ('panic', where)"""
    if path.kind == "panic":
        return ("panic", path.value[1] if isinstance(path.value, tuple) and len(path.value) > 1 else "?")
    v = path.value
    if isinstance(v, tuple) and v and v[0] == "adt" and v[1] == RESULT:
        if v[2] == 0:
            return ("ok", dict(v[3]).get(0))
        ev = dict(v[3]).get(0)
        while isinstance(ev, tuple) and ev and ev[0] == "into":
            ev = ev[1]
        if isinstance(ev, tuple) and ev and ev[0] == "adt":
            ent = u.adts.get(ev[1])
            vname = str(ev[2])
            fnames = {}
            if ent:
                c, aj = ent
                for var in aj["variants"]:
                    if var["index"] == ev[2]:
                        vname = var["name"]
                        fnames = {i: f["name"] for i, f in enumerate(var["fields"])}
            return ("err", ev[1].split("::")[-1] + "::" + vname, {fnames.get(i, str(i)): label(x) for i, x in ev[3]})
        return ("err", "?", {"value": label(ev)})
    return ("other", label(v))


def guard_table(u, paths):
    """Rows of the success path + one reject entry per failing path.
    Returns dict(success=[row_str...], rejects=[{after:[rows], fails:row, error:.., payload:{}}], panics=[...])"""
    succ = None
    rejects = []
    panics = []
    for p in paths:
        out = outcome_of(u, p)
        rows = [row_str(norm_cond(c)) for c in p.conds]
        if out[0] == "ok":
            if succ is None:
                succ = rows
            else:
                succ = succ if succ == rows else succ + ["|ALT|"] + rows
        elif out[0] == "err":
            rejects.append({"after": rows[:-1], "fails": rows[-1] if rows else "(unconditional)", "error": out[1], "payload": out[2],
                            "reads": sum(1 for e in p.events if e[0] == "R")})
        elif out[0] == "panic":
            panics.append({"after": rows, "where": out[1]})
    return {"success": succ or [], "rejects": rejects, "panics": panics}
