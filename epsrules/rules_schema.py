"""C18: the recording writer (SchemaWriter) against the default WriteWithNames behaviour, and the
bookkeeping of its rows."""
from . import facts, interp, wirehooks, guards, rules_align
from .facts import ty_str
from .guards import label, norm_cond, row_str, outcome_of
from .interp import C, is_c

ROW_FIELDS = {"field": 0, "ty": 1, "offset": 2, "size": 3, "align": 4}


def schema_writer_impl(u, trait_suffix):
    out = []
    for im in u.impls:
        if im.trait and im.trait.endswith(trait_suffix) and im.self_ty[0] == "adt" and im.self_ty[1].endswith("::SchemaWriter"):
            out.append(im)
    return out


def row_field(u, row, name):
    """value of a SchemaRow field by *name* (positions are looked up in the ADT definition)"""
    ent = u.adts.get(row[1])
    idx = None
    if ent:
        for i, f in enumerate(ent[1]["variants"][0]["fields"]):
            if f["name"] == name:
                idx = i
    if idx is None:
        idx = ROW_FIELDS[name]
    return dict(row[3]).get(idx)


def is_pos(v):
    return isinstance(v, tuple) and v and v[0] == "pos" and v[1] == ("self",)


def row_stores(p):
    out = []
    for i, e in enumerate(p.events):
        if e[0] == "Store" and e[2] and e[2][0][0] == "m" and e[2][0][2] in ("push", "insert"):
            tgt = e[1]
            # self.schema.0
            if isinstance(tgt, tuple) and tgt[0] == "field" and isinstance(tgt[1], tuple) and tgt[1][0] == "field" and tgt[1][1] == ("self",):
                vals = e[3] if isinstance(e[3], tuple) and e[3] and isinstance(e[3][0], tuple) else (e[3],)
                rows = [x for x in (vals if e[2][0][2] == "insert" else (e[3],)) if isinstance(x, tuple) and x and x[0] == "adt" and x[1].endswith("SchemaRow")]
                if e[2][0][2] == "push" and isinstance(e[3], tuple) and e[3] and e[3][0] == "adt":
                    rows = [e[3]]
                for r in rows:
                    out.append((i, e[2][0][2], r, e[3]))
    return out


def rules_schema_writer(u, rep):
    ims = schema_writer_impl(u, "::WriteWithNames")
    if len(ims) != 1:
        rep.add("ANCHOR", "SchemaWriter", "cannot locate the WriteWithNames impl of the recording writer (%d found)" % len(ims))
        return
    im = ims[0]
    n = 0
    # ---- align: same amount, zero bytes (shared rule), plus the padding row
    rules_align_filtered(u, rep)
    b = u.body(im.item_id("align"))
    if b is not None:
        gens = [g for g in b.generics if g["kind"] == "type" and not g.get("synthetic") and g["name"] != "Self"]
        T = ("param", gens[-1]["name"], gens[-1]["index"])
        ip, paths = rules_align.run_method(u, b)
        for p in paths:
            if outcome_of(u, p)[0] != "ok":
                continue
            rows = row_stores(p)
            wrote = [i for i, e in enumerate(p.events) if e[0] in ("Loop", "W")]
            if not wrote:
                ok = not rows
                rep.oblige(ok)
                if not ok:
                    rep.add("ROW", "align:row-without-bytes", "SchemaWriter::align records a padding row on a path that writes nothing", b.loc())
                continue
            ok = len(rows) == 1 and rows[0][0] < wrote[0]
            if ok:
                r = rows[0][2]
                off, size, al = row_field(u, r, "offset"), row_field(u, r, "size"), row_field(u, r, "align")
                ok = is_pos(off) and rules_align.pad_of_self(size, T) and al == C(1)
            rep.oblige(ok)
            n += 1
            if not ok:
                rep.add("ROW", "align:row", "SchemaWriter::align must record, before writing, exactly one row {offset: pos(), size: padding, align: 1}; found %s"
                        % [(label(row_field(u, r[2], "offset")), label(row_field(u, r[2], "size")), label(row_field(u, r[2], "align"))) for r in rows], b.loc())
    # ---- write: delegates exactly once; row inserted at the remembered index with offset/size from pos()
    b = u.body(im.item_id("write"))
    if b is not None:
        ip, paths = rules_align.run_method(u, b)
        for p in paths:
            if outcome_of(u, p)[0] != "ok":
                continue
            ws = [(i, e) for i, e in enumerate(p.events) if e[0] == "W"]
            ok = len(ws) == 1 and ws[0][1][2] == "F" and ws[0][1][1] == ("self",) and ws[0][1][4] == ("param", "value")
            rep.oblige(ok)
            n += 1
            if not ok:
                rep.add("FORWARD", "write", "SchemaWriter::write must delegate exactly once to <V as SerializeInner>::_serialize_inner(value, self); events: %s"
                        % [(e[2], label(e[4]) if len(e) > 4 else "") for _, e in ws], b.loc())
                continue
            widx = ws[0][0]
            rows = row_stores(p)
            ok = len(rows) == 1 and rows[0][1] == "insert"
            if ok:
                r = rows[0][2]
                off, size, al = row_field(u, r, "offset"), row_field(u, r, "size"), row_field(u, r, "align")
                idxv = rows[0][3][0] if isinstance(rows[0][3], tuple) else None
                ok = is_pos(off) and off[2] <= widx
                ok = ok and isinstance(size, tuple) and size[0] == "bin" and size[1] == "Sub" and is_pos(size[2]) and size[2][2] > widx and size[3] == off
                ok = ok and isinstance(idxv, tuple) and idxv[0] == "len"
            rep.oblige(ok)
            if not ok:
                rep.add("ROW", "write:row", "SchemaWriter::write must insert, at the row count taken before the nested write, one row {offset: pos() before, size: pos() after - offset}; found %s via %s"
                        % ([(label(row_field(u, r[2], "offset")), label(row_field(u, r[2], "size"))) for r in rows], [r[1] for r in rows]), b.loc())
    # ---- write_bytes: forwards the slice unchanged; row before the write
    b = u.body(im.item_id("write_bytes"))
    if b is not None:
        gens = [g for g in b.generics if g["kind"] == "type" and not g.get("synthetic") and g["name"] != "Self"]
        V = ("param", gens[-1]["name"], gens[-1]["index"])
        ip, paths = rules_align.run_method(u, b)
        for p in paths:
            if outcome_of(u, p)[0] != "ok":
                continue
            ws = [(i, e) for i, e in enumerate(p.events) if e[0] == "W"]
            recv = ws[0][1][1] if ws else None
            # through SchemaWriter's own write_all (a pure forward, checked below) or directly on the wrapped writer
            recv_ok = recv == ("self",) or (isinstance(recv, tuple) and len(recv) > 1 and recv[0] == "field" and recv[1] == ("self",))
            ok = len(ws) == 1 and ws[0][1][2] == "B" and recv_ok and ws[0][1][4] == ("param", "value")
            rep.oblige(ok)
            n += 1
            if not ok:
                rep.add("FORWARD", "write_bytes", "SchemaWriter::write_bytes must forward the slice unchanged with one write_all(value); events: %s"
                        % [(e[2], label(e[4]) if len(e) > 4 else "") for _, e in ws], b.loc())
                continue
            rows = row_stores(p)
            ok = len(rows) == 1 and rows[0][0] < ws[0][0]
            if ok:
                r = rows[0][2]
                off, size, al = row_field(u, r, "offset"), row_field(u, r, "size"), row_field(u, r, "align")
                ok = is_pos(off) and size == ("len", ("param", "value")) and al == ("unit", V)
            rep.oblige(ok)
            if not ok:
                rep.add("ROW", "write_bytes:row", "SchemaWriter::write_bytes must record, before writing, one row {offset: pos(), size: value.len(), align: V::max_size_of()}; found %s"
                        % [(label(row_field(u, r[2], "offset")), label(row_field(u, r[2], "size")), label(row_field(u, r[2], "align"))) for r in rows], b.loc())
    # ---- write_all / flush / pos forward to the wrapped writer
    for suffix, meth, kind in (("::WriteNoStd", "write_all", "B"), ("::WriteNoStd", "flush", "Flush"), ("::WriteWithPos", "pos", None)):
        for im2 in schema_writer_impl(u, suffix):
            b = u.body(im2.item_id(meth))
            if b is None:
                continue
            ip, paths = rules_align.run_method(u, b)
            for p in paths:
                if p.kind != "ret":
                    continue
                n += 1
                if kind is None:
                    v = p.value
                    ok = isinstance(v, tuple) and v and v[0] == "pos" and isinstance(v[1], tuple) and v[1][0] == "field" and v[1][1] == ("self",)
                else:
                    ws = [e for e in p.events if e[0] == "W"]
                    ok = len(ws) == 1 and ws[0][2] == kind and isinstance(ws[0][1], tuple) and ws[0][1][0] == "field" and ws[0][1][1] == ("self",)
                    if ok and kind == "B":
                        ok = ws[0][4] == ("param", "buf")
                rep.oblige(ok)
                if not ok:
                    rep.add("FORWARD", meth, "SchemaWriter::%s does not simply forward to the wrapped writer" % meth, b.loc())
    rep.count("schema_writer_paths", n)


def rules_align_filtered(u, rep):
    """the shared align rule, keeping only findings about SchemaWriter and the default"""
    from .common import Report
    sub = Report(rep.prop, rep.tier)
    rules_align.rule_align_impls(u, sub)
    for f in sub.findings:
        if "SchemaWriter" in f.key or "default WriteWithNames" in f.key or f.rule == "FLOOR":
            rep.findings.append(f)
    rep.obligations += sub.obligations
    rep.discharged += sub.discharged


def rules_schema_render(u, rep):
    """Schema::debug / to_csv: data is indexed only by the recorded range of a row; row lookahead stays in bounds."""
    n = 0
    for b in u.bodies.values():
        if b.d.get("krate") != "epserde" or b.thir is None or b.kind != "AssocFn":
            continue
        im = u.impl_of_item(b.id)
        if im is None or im.trait is not None or im.self_ty[0] != "adt" or not im.self_ty[1].endswith("::Schema"):
            continue
        ip = interp.Interp(u, wirehooks.WireHooks())
        try:
            paths = ip.run(b, None)
        except interp.Unsupported as ex:
            rep.add("EXTRACT", "Schema::" + b.d.get("name"), "cannot analyse: %s" % ex, b.loc())
            continue
        for p in paths:
            evs = list(p.events)
            # flatten loop bodies
            def flat(es):
                for e in es:
                    if e[0] == "Loop":
                        body = e[2]
                        if isinstance(body, tuple) and body and body[0] == "alt":
                            for (_c, sub) in body[1]:
                                for x in flat(sub):
                                    yield x
                        else:
                            for x in flat(body):
                                yield x
                    else:
                        yield e
            for e in flat(evs):
                if e[0] == "MayPanic" and e[1] == "index":
                    base, idx = e[3]
                    n += 1
                    lb = label(base)
                    if base == ("param", "data"):
                        # must be row.offset .. row.offset + row.size
                        ok = isinstance(idx, tuple) and idx[0] == "adt" and idx[1].endswith("::Range")
                        if ok:
                            f = dict(idx[3])
                            lo, hi = f.get(0), f.get(1)
                            ok = isinstance(lo, tuple) and lo[0] == "field" and lo[3] == "offset" and isinstance(hi, tuple) and hi[0] == "bin" and hi[1] == "Add" and lo in (hi[2], hi[3]) and \
                                any(isinstance(x, tuple) and x[0] == "field" and x[3] == "size" and x[1] == lo[1] for x in (hi[2], hi[3]))
                        rep.oblige(ok)
                        if not ok:
                            rep.add("RENDER", "%s:data-index" % b.d.get("name"), "Schema::%s indexes the data with %s instead of row.offset..row.offset+row.size" % (b.d.get("name"), label(idx)), b.loc())
    rep.count("render_index_sites", n)


def rule_entry_points(u, rep):
    """Serialize::serialize and Serialize::serialize_with_schema are the same stream operation: with the value and
    the recording symbolic, both put the same atoms on the user's backend, in the same order, and end by flushing it."""
    from . import wire, interp
    w = wire.Wire(u)
    terms = {}
    for b in u.bodies.values():
        if b.d.get("krate") == "epserde" and b.d.get("name") in ("serialize", "serialize_with_schema") and b.d.get("parent_kind") == "Trait" and b.thir is not None \
                and b.id.startswith("epserde::ser::Serialize::"):
            try:
                ip, paths = w.extract(b, "ser")
            except interp.Unsupported as ex:
                rep.add("EXTRACT", "entry:" + b.d["name"], "cannot extract the stream term of Serialize::%s: %s" % (b.d["name"], ex), b.loc())
                continue
            oks = [p for p in paths if p.outcome == "ok"]
            # the entry points themselves never panic: whatever the writer does is reported through the Result
            pans = [p for p in paths if p.outcome == "panic"]
            rep.oblige(not pans)
            if pans:
                rep.add("ENTRY", "panic:" + b.d["name"], "Serialize::%s has a panicking path of its own (%s): a failing writer must be reported as an error, and the recording state after a failed write is not the one a successful run leaves"
                        % (b.d["name"], str(getattr(pans[0], "panic_sp", None) or pans[0].value)[:120]), b.loc())
            for p in oks:
                if p.problems:
                    rep.add("ENTRY", "problems:" + b.d["name"], "Serialize::%s: %s" % (b.d["name"], [str(x)[:100] for x in p.problems][:2]), b.loc())
            terms[b.d["name"]] = (b, oks)
    a, c = terms.get("serialize"), terms.get("serialize_with_schema")
    if a is None or c is None:
        rep.add("ANCHOR", "Serialize entry points", "cannot locate Serialize::serialize / serialize_with_schema")
        return 0
    sa = sorted(set(p.show() for p in a[1]))
    sc = sorted(set(p.show() for p in c[1]))
    ok = sa == sc and len(sa) == 1
    rep.oblige(ok)
    if not ok:
        rep.add("ENTRY", "terms", "Serialize::serialize puts [%s] on the backend but serialize_with_schema puts [%s]" % (" | ".join(sa), " | ".join(sc)), c[0].loc())
    for nm, (b, oks) in terms.items():
        for p in oks:
            last = p.atoms[-1].k if p.atoms else None
            okf = last == "Flush"
            rep.oblige(okf)
            if not okf:
                rep.add("ENTRY", "flush:" + nm, "Serialize::%s returns without flushing the backend as its last stream operation (ends with %s): a buffering backend keeps the tail of the stream" % (nm, last), b.loc())
    rep.count("entry_points_compared", len(terms))
    return len(terms)


# writers that hand a part of themselves to its writer directly, with the reason it is harmless for the rows
BYPASS_EXEMPT = {
    "SerIter<T, I>": "the Deep helper of SerIter writes its items without field names; a SerIter over deep items cannot be built with items (new/From require T: ZeroCopy, Default gives an empty iterator), so no row is ever missing",
}


def rule_no_bypass(u, ts, rep):
    """BYPASS: inside a writer, a nested value reaches the stream through `backend.write(name, value)` -- the one place
    where the recording writer opens a row -- never through `value._serialize_inner(backend)` directly. Delegating the
    whole of self (self, `*self as u32`, the borrowed Vec of a slice) is not nesting: the row of self is the row."""
    n = 0

    def whole_of_self(v, depth=0):
        if v == ("self",):
            return True
        if not isinstance(v, tuple) or not v or depth > 12:
            return False
        if v[0] in ("cast", "view", "manuallydrop", "deref"):
            return any(whole_of_self(x, depth + 1) for x in v[1:] if isinstance(x, tuple))
        if v[0] == "call" and v[1] in ("from_raw_parts", "deref", "as_slice", "borrow", "new", "as_ref") and v[2]:
            # the fake Vec of `&[T]` is built from self's own pointer and length
            return any(_mentions_self(a) for a in v[2])
        return False

    for t in ts:
        if t.ser_impl is None:
            continue
        for p in t.paths.get("ser", []) or []:
            for e in p.raw.events:
                if e[0] == "W" and e[2] == "F" and len(e) > 5 and e[5] is None:
                    n += 1
                    ok = whole_of_self(e[4]) or t.key in BYPASS_EXEMPT
                    rep.oblige(ok)
                    if not ok:
                        rep.add("BYPASS", t.key, "the writer of `%s` hands %s to its writer with `_serialize_inner(backend)` instead of `backend.write(name, ..)`: the recording writer opens no row for it, so the rows of the enclosing value have a gap there" % (t.key, label(e[4])[:60]), e[-1])
                        break
    rep.count("direct_serialize_inner_calls", n)
    return n


def _mentions_self(v, depth=0):
    if v == ("self",):
        return True
    if not isinstance(v, tuple) or depth > 12:
        return False
    return any(_mentions_self(x, depth + 1) for x in v if isinstance(x, tuple))
