"""Generator of the thorough-tier corpus crate `wgen`: a bounded enumeration of the derive grammar
(shape x copy kind x parameterisation pattern x names/order) plus a seeded random tail.

For every definition it emits closed instantiations with the *expected* normalised DeserType /
SerType, computed here from the property statement (a parameter that is the type of some field is
replaced by its own eps type; a parameter merely mentioned is kept; zero-copy types give a reference).
"""
import itertools
import json
import os
import random

# closed argument types with their eps type and their serialization type, as rustc prints them
ARGS = [
    # (rust type, printed type, printed eps type, zero-copy?)
    ("Vec<u64>", "std::vec::Vec<u64>", "&[u64]", False),
    ("String", "std::string::String", "&str", False),
    ("Vec<String>", "std::vec::Vec<std::string::String>", "std::vec::Vec<&str>", False),
    ("Box<[u8]>", "std::boxed::Box<[u8]>", "&[u8]", False),
    ("u32", "u32", "u32", True),
    ("Vec<Vec<u16>>", "std::vec::Vec<std::vec::Vec<u16>>", "std::vec::Vec<&[u16]>", False),
    ("Option<Vec<u8>>", "std::option::Option<std::vec::Vec<u8>>", "std::option::Option<&[u8]>", False),
    ("[u16; 3]", "[u16; 3]", "&[u16; 3]", True),
]
DEEP_ARGS = [a for a in ARGS if not a[3]]          # usable where `P: DeepCopy`
ZERO_ARGS = [("u32", "u32"), ("u8", "u8"), ("[u16; 3]", "[u16; 3]"), ("(u8, u8)", "(u8, u8)"), ("i64", "i64")]

CLOSED_DEEP_FIELDS = ["u8", "i32", "u64", "usize", "f64", "bool", "char", "String", "Vec<u8>", "Vec<String>", "Box<[u32]>",
                      "Option<u16>", "[u16; 3]", "(u8, u8)", "Vec<Vec<u8>>", "core::marker::PhantomData<u64>", "()",
                      "core::ops::Bound<u32>", "core::ops::ControlFlow<u8, u16>", "core::ops::Range<u32>", "Box<str>", "[String; 2]"]
CLOSED_ZERO_FIELDS = ["u8", "i16", "u32", "u64", "f32", "bool", "char", "[u8; 5]", "(u16, u16)", "core::marker::PhantomData<String>",
                      "core::ops::RangeTo<u32>", "[[u8; 2]; 2]", "core::num::NonZeroU32", "()"]

PARAM_NAMES = [["A", "B", "C"], ["T", "A", "K"], ["Zeta", "Mid", "Alpha"], ["K", "V", "B"], ["X2", "X10", "X1"], ["Out", "In", "Aux"]]
FIELD_NAMES = ["alpha", "b", "count", "d0", "e_", "ff", "g", "h"]
VARIANT_NAMES = ["Aa", "Bb", "Cc", "Dd", "Ee", "Ff"]


class Def:
    def __init__(self, name):
        self.name = name
        self.kind = "struct"       # struct | tuple | unit | enum
        self.copy = "deep"         # deep | deepattr | zero
        self.reprs = []
        self.tparams = []          # (name, role) role in F | M | P
        self.cparams = []          # names
        self.fields = []           # (name or None, type string)        (struct / tuple)
        self.variants = []         # (name, kind, [(fname or None, type)])
        self.bounds = {}           # param -> bound string


def mention(p, how):
    return {"vec": "Vec<%s>" % p, "arr": "[%s; 2]" % p, "opt": "Option<%s>" % p, "box": "Box<[%s]>" % p}[how]


def render(d):
    attrs = ["#[derive(Epserde, Debug, Clone, PartialEq)]"] if d.copy != "zero" else ["#[derive(Epserde, Debug, Clone, Copy, PartialEq)]"]
    if d.copy == "zero":
        attrs.append("#[repr(C)]")
        for r in d.reprs:
            attrs.append("#[repr(%s)]" % r)
        attrs.append("#[zero_copy]")
    elif d.copy == "deepattr":
        attrs.append("#[deep_copy]")
    gens = []
    wheres = []
    # a deterministic third of the definitions write their bounds in a where clause (propagated since fix 0191486)
    in_where = (sum(ord(ch) for ch in d.name) % 3 == 0)
    for (p, role) in d.tparams:
        b = d.bounds.get(p)
        if b and in_where:
            gens.append(p)
            # one predicate per bound: every predicate on the parameter has to be propagated
            for part in b.split(" + "):
                wheres.append("%s: %s" % (p, part))
        else:
            gens.append("%s: %s" % (p, b) if b else p)
    for cp in d.cparams:
        gens.append("const %s: usize" % cp)
    g = "<%s>" % ", ".join(gens) if gens else ""
    wc = (" where %s" % ", ".join(wheres)) if wheres else ""
    attrs = list(getattr(d, "extra_attrs", [])) + attrs
    out = "\n".join(attrs) + "\n"
    if d.kind == "unit":
        out += "pub struct %s%s%s;\n" % (d.name, g, wc)
    elif d.kind == "struct":
        out += "pub struct %s%s%s { %s }\n" % (d.name, g, wc, ", ".join("pub %s: %s" % (n, t) for n, t in d.fields))
    elif d.kind == "tuple":
        out += "pub struct %s%s(%s)%s;\n" % (d.name, g, ", ".join("pub %s" % t for _n, t in d.fields), wc)
    else:
        vs = []
        for (vn, vk, fs) in d.variants:
            if vk == "unit":
                vs.append(vn)
            elif vk == "tuple":
                vs.append("%s(%s)" % (vn, ", ".join(t for _n, t in fs)))
            elif vk == "tuple:disc":
                nm, disc = vn.split(" = ")
                vs.append("%s(%s) = %s" % (nm, ", ".join(t for _n, t in fs), disc))
            else:
                vs.append("%s { %s }" % (vn, ", ".join("%s: %s" % (n, t) for n, t in fs)))
        out += "pub enum %s%s%s { %s }\n" % (d.name, g, wc, ", ".join(vs))
    return out


def instantiate(d, rnd):
    """A closed instantiation: (rust type, expected DeserType string, expected SerType string)"""
    args_rust, args_eps, args_ser = [], [], []
    for (p, role) in d.tparams:
        if d.copy == "zero":
            a = rnd.choice(ZERO_ARGS)
            args_rust.append(a[0])
            args_eps.append(a[1])
            args_ser.append(a[1])
            continue
        if role == "F":
            a = rnd.choice(ARGS)
            args_rust.append(a[0])
            args_eps.append(a[2])
            args_ser.append(a[1])
        elif role == "M":
            b = d.bounds.get(p, "")
            if "ZeroCopy" in b:
                a = rnd.choice(ZERO_ARGS)
                args_rust.append(a[0])
                args_eps.append(a[1])
                args_ser.append(a[1])
            else:
                a = rnd.choice(DEEP_ARGS)
                args_rust.append(a[0])
                args_eps.append(a[1])
                args_ser.append(a[1])
        else:
            args_rust.append("String")
            args_eps.append("std::string::String")
            args_ser.append("std::string::String")
    consts = [str(rnd.choice([0, 1, 3, 7])) for _ in d.cparams]
    rust = d.name + ("<%s>" % ", ".join(args_rust + consts) if (args_rust or consts) else "")
    if d.copy == "zero":
        eps = "&" + d.name + ("<%s>" % ", ".join(args_eps + consts) if (args_eps or consts) else "")
    else:
        eps = d.name + ("<%s>" % ", ".join(args_eps + consts) if (args_eps or consts) else "")
    ser = d.name + ("<%s>" % ", ".join(args_ser + consts) if (args_ser or consts) else "")
    return rust, eps, ser


def build(tier, seed):
    rnd = random.Random(1234 + seed)
    defs = []
    counter = [0]

    def new():
        counter[0] += 1
        return Def("G%03d" % counter[0])

    # ---- 1. shapes x copy kinds, no parameters
    for kind in ("struct", "tuple", "unit", "enum"):
        for copy in ("deep", "deepattr", "zero"):
            for nf in ((0,) if kind == "unit" else (1, 2, 4)):
                d = new()
                d.kind, d.copy = kind, copy
                pool = CLOSED_ZERO_FIELDS if copy == "zero" else CLOSED_DEEP_FIELDS
                if kind == "enum":
                    nv = nf + 1
                    for vi in range(nv):
                        vk = ("unit", "tuple", "named")[(vi + nf) % 3]
                        fs = [] if vk == "unit" else [(FIELD_NAMES[j], rnd.choice(pool)) for j in range(1 + (vi % 3))]
                        d.variants.append((VARIANT_NAMES[vi], vk, fs))
                else:
                    d.fields = [(FIELD_NAMES[j], rnd.choice(pool)) for j in range(nf)]
                if copy == "zero" and nf == 2:
                    d.reprs = ["align(16)"]
                defs.append(d)
    # ---- 1b. field types that share their last path segment / their generic head but are different types
    # (every one of them must enter IS_ZERO_COPY, MaxSizeOf, the hashes and the ZeroCopy probes by itself)
    same = ["na::Hd", "nb::Hd", "GZ<u8>", "GZ<u64>"]
    for copy in ("zero", "deep"):
        for order in (same, same[::-1], [same[1], same[0], same[3], same[2]]):
            for kind in ("struct", "tuple"):
                d = new()
                d.kind, d.copy = kind, copy
                d.fields = [(FIELD_NAMES[j], t) for j, t in enumerate(order)]
                defs.append(d)
    # ---- 2. parameterisation patterns (deep structs / tuple structs / enums; zero-copy structs)
    roles_sets = [("F",), ("M",), ("P",), ("F", "F"), ("F", "M"), ("M", "F"), ("F", "P"), ("P", "F"), ("F", "F", "F"), ("F", "M", "P"), ("M", "P", "F")]
    for names in PARAM_NAMES:
        for roles in roles_sets:
            for kind in ("struct", "tuple", "enum"):
                if tier == "quick" and rnd.random() < 0.6:
                    continue
                d = new()
                d.kind, d.copy = kind, "deep"
                ps = list(zip(names[:len(roles)], roles))
                d.tparams = ps
                fs = []
                for (p, role) in ps:
                    if role == "F":
                        fs.append(p)
                    elif role == "M":
                        how = rnd.choice(["vec", "opt", "box", "arr"])
                        fs.append(mention(p, how))
                        d.bounds[p] = "ZeroCopy + 'static" if how == "arr" else "DeepCopy + 'static"
                    else:
                        fs.append("core::marker::PhantomData<%s>" % p)
                fs.append(rnd.choice(CLOSED_DEEP_FIELDS))
                rnd.shuffle(fs)
                if kind == "enum":
                    # spread the fields over variants of all three kinds
                    d.variants.append((VARIANT_NAMES[0], "unit", []))
                    half = max(1, len(fs) // 2)
                    d.variants.append((VARIANT_NAMES[1], "tuple", [(None, t) for t in fs[:half]]))
                    d.variants.append((VARIANT_NAMES[2], "named", [(FIELD_NAMES[j], t) for j, t in enumerate(fs[half:] or ["u8"])]))
                    # inline bound on a field-typed parameter (the enum branch propagates them since fix 5a76344)
                    for (p, role) in ps:
                        if role == "F" and rnd.random() < 0.3:
                            d.bounds[p] = "Clone + core::fmt::Debug"
                else:
                    d.fields = [(FIELD_NAMES[j], t) for j, t in enumerate(fs)]
                    # inline bound on a field-typed parameter (supported for structs)
                    for (p, role) in ps:
                        if role == "F" and rnd.random() < 0.3:
                            d.bounds[p] = "Clone + core::fmt::Debug"
                defs.append(d)
    # zero-copy structs with parameters
    for names in PARAM_NAMES[:3] if tier == "quick" else PARAM_NAMES:
        for n in (1, 2):
            d = new()
            d.kind, d.copy = "struct", "zero"
            d.tparams = [(p, "F") for p in names[:n]]
            for p in names[:n]:
                d.bounds[p] = "ZeroCopy"
            d.fields = [(FIELD_NAMES[j], p) for j, p in enumerate(names[:n])] + [(FIELD_NAMES[n], rnd.choice(CLOSED_ZERO_FIELDS))]
            defs.append(d)
    # zero-copy enums with parameters
    for names in PARAM_NAMES[:2] if tier == "quick" else PARAM_NAMES:
        for n in (1, 2):
            d = new()
            d.kind, d.copy = "enum", "zero"
            d.tparams = [(p, "F") for p in names[:n]]
            for p in names[:n]:
                d.bounds[p] = "ZeroCopy"
            d.variants = [(VARIANT_NAMES[0], "unit", []), (VARIANT_NAMES[1], "tuple", [(None, p) for p in names[:n]]),
                          (VARIANT_NAMES[2], "named", [(FIELD_NAMES[0], rnd.choice(CLOSED_ZERO_FIELDS))])]
            defs.append(d)
    # ---- 3. const parameters
    for kind in ("struct", "tuple", "enum"):
        for copy in ("deep", "zero"):
            for nc in (1, 2):
                d = new()
                d.kind, d.copy = kind, copy
                d.cparams = ["N", "M2"][:nc] if rnd.random() < 0.5 else ["Q", "LEN"][:nc]
                fs = ["[u8; %s]" % c for c in d.cparams] + [rnd.choice(CLOSED_ZERO_FIELDS if copy == "zero" else CLOSED_DEEP_FIELDS)]
                if copy == "deep" and kind != "enum":
                    d.tparams = [("T", "F")]
                    fs.append("T")
                if kind == "enum":
                    d.variants = [(VARIANT_NAMES[0], "tuple", [(None, fs[0])]), (VARIANT_NAMES[1], "named", [(FIELD_NAMES[j], t) for j, t in enumerate(fs[1:])]), (VARIANT_NAMES[2], "unit", [])]
                else:
                    d.fields = [(FIELD_NAMES[j], t) for j, t in enumerate(fs)]
                defs.append(d)
    # ---- 4. enums with many variants
    for nv in (1, 2, 9, 17) if tier != "quick" else (9,):
        d = new()
        d.kind, d.copy = "enum", "deep"
        for vi in range(nv):
            vk = ("unit", "tuple", "named")[vi % 3]
            fs = [] if vk == "unit" else [(FIELD_NAMES[j], CLOSED_DEEP_FIELDS[(vi + j) % len(CLOSED_DEEP_FIELDS)]) for j in range(1 + vi % 2)]
            d.variants.append(("V%d" % vi, vk, fs))
        defs.append(d)
    # ---- 4b. explicit discriminants (fieldless enums, and enums with payloads under a primitive repr):
    #          tags stay declaration indices on all three sides
    for (nv, payload, mixed) in ((3, False, False), (5, False, False), (4, True, False), (4, False, True), (5, False, True)):
        d = new()
        d.kind, d.copy = "enum", "deep"
        discs = [7, 0, 3, 250, 1][:nv]
        for vi in range(nv):
            if mixed:
                # explicit discriminants equal to the position of a later variant, implicit ones in between
                name = ("V%d = %d" % (vi, vi + 1)) if vi % 2 == 0 and vi + 1 < nv else "V%d" % vi
                d.variants.append((name, "unit", []))
            elif payload and vi % 2 == 1:
                d.variants.append(("V%d = %d" % (vi, discs[vi]), "tuple:disc", [(None, CLOSED_DEEP_FIELDS[vi % len(CLOSED_DEEP_FIELDS)])]))
            else:
                d.variants.append(("V%d = %d" % (vi, discs[vi]), "unit", []))
        if payload:
            d.extra_attrs = ["#[repr(u8)]"]
        defs.append(d)
    # ---- 5. random tail
    ntail = 20 if tier == "quick" else 120
    for _ in range(ntail):
        d = new()
        d.kind = rnd.choice(["struct", "tuple", "enum"])
        d.copy = rnd.choice(["deep", "deep", "deepattr", "zero"])
        pool = CLOSED_ZERO_FIELDS if d.copy == "zero" else CLOSED_DEEP_FIELDS
        names = rnd.choice(PARAM_NAMES)
        np_ = rnd.choice([0, 0, 1, 2, 3]) if d.copy != "zero" else rnd.choice([0, 1])
        fs = []
        for p in names[:np_]:
            role = "F" if d.copy == "zero" else rnd.choice(["F", "F", "M", "P"])
            d.tparams.append((p, role))
            if d.copy == "zero":
                d.bounds[p] = "ZeroCopy"
                fs.append(p)
            elif role == "F":
                fs.append(p)
            elif role == "M":
                how = rnd.choice(["vec", "opt", "box", "arr"])
                fs.append(mention(p, how))
                d.bounds[p] = "ZeroCopy + 'static" if how == "arr" else "DeepCopy + 'static"
            else:
                fs.append("core::marker::PhantomData<%s>" % p)
        if rnd.random() < 0.3:
            d.cparams = ["N"]
            fs.append("[u8; N]")
        for _j in range(rnd.choice([0, 1, 2, 3])):
            fs.append(rnd.choice(pool))
        if not fs:
            fs = [rnd.choice(pool)]
        rnd.shuffle(fs)
        if d.kind == "enum":
            k = rnd.choice([1, 2, 3])
            chunks = [fs[i::k] for i in range(k)]
            for vi, ch in enumerate(chunks):
                vk = rnd.choice(["tuple", "named"]) if ch else "unit"
                d.variants.append((VARIANT_NAMES[vi], vk, [((FIELD_NAMES[j] if vk == "named" else None), t) for j, t in enumerate(ch)]))
            if rnd.random() < 0.5:
                d.variants.append((VARIANT_NAMES[len(chunks)], "unit", []))
        else:
            d.fields = [(FIELD_NAMES[j], t) for j, t in enumerate(fs)]
        if d.copy == "zero" and rnd.random() < 0.3:
            d.reprs = [rnd.choice(["align(8)", "align(32)"])]
        defs.append(d)
    return defs, rnd


HEADER = '''//! generated by epsrules/gen_corpus.py -- do not edit
#![allow(dead_code)]
#![allow(clippy::all)]
#![allow(non_camel_case_types)]
use epserde::prelude::*;
use epserde::deser::DeserializeInner;
use epserde::ser::SerializeInner;

pub mod na {
    use epserde::prelude::*;
    #[derive(Epserde, Debug, Clone, Copy, PartialEq)]
    #[repr(C)]
    #[zero_copy]
    pub struct Hd { pub x: u32 }
}
pub mod nb {
    use epserde::prelude::*;
    #[derive(Epserde, Debug, Clone, Copy, PartialEq)]
    #[repr(C)]
    #[zero_copy]
    pub struct Hd { pub y: u64, pub z: u8 }
}
#[derive(Epserde, Debug, Clone, Copy, PartialEq)]
#[repr(C)]
#[zero_copy]
pub struct GZ<T: ZeroCopy> { pub t: T, pub n: u16 }

'''


def make(tier="thorough", seed=0):
    defs, rnd = build(tier, seed)
    src = HEADER
    expect = {"aliases": {}, "defs": len(defs), "samples": []}
    for d in defs:
        src += render(d) + "\n"
        if len(expect["samples"]) < 3 and (d.tparams and d.kind == "enum"):
            expect["samples"].append(render(d).strip().split("\n")[-1])
        for rep_i in range(2 if (d.tparams or d.cparams) else 1):
            rust, eps, ser = instantiate(d, rnd)
            dn = "D_%s_%d" % (d.name, rep_i)
            sn = "S_%s_%d" % (d.name, rep_i)
            src += "pub type %s = <%s as DeserializeInner>::DeserType<'static>;\n" % (dn, rust)
            src += "pub type %s = <%s as SerializeInner>::SerType;\n" % (sn, rust)
            expect["aliases"][dn] = eps
            expect["aliases"][sn] = ser
        # a serialization-only instantiation: every field-typed parameter of a deep-copy definition holds a view
        # (&[T] -> Vec<T>), so each one must be mapped by SerType whatever the order of parameters and fields
        fparams = [p_ for (p_, role) in d.tparams if role == "F"]
        if d.copy != "zero" and fparams and not any("Clone" in (d.bounds.get(p_) or "") for p_ in fparams):
            VIEWS = [("&'static [u16]", "std::vec::Vec<u16>"), ("&'static [i64]", "std::vec::Vec<i64>"), ("&'static [u8]", "std::vec::Vec<u8>")]
            args_rust, args_ser = [], []
            k = 0
            for (p_, role) in d.tparams:
                if role == "F":
                    v = VIEWS[k % len(VIEWS)]
                    k += 1
                    args_rust.append(v[0])
                    args_ser.append(v[1])
                elif role == "M":
                    b = d.bounds.get(p_, "")
                    a = (ZERO_ARGS if "ZeroCopy" in b else DEEP_ARGS)[0]
                    args_rust.append(a[0])
                    args_ser.append(a[1])
                else:
                    args_rust.append("String")
                    args_ser.append("std::string::String")
            consts = ["3" for _ in d.cparams]
            vn = "SV_%s" % d.name
            src += "pub type %s = <%s<%s> as SerializeInner>::SerType;\n" % (vn, d.name, ", ".join(args_rust + consts))
            expect["aliases"][vn] = "%s<%s>" % (d.name, ", ".join(args_ser + consts))
        src += "\n"
    return src, expect


def generate(crate_dir, tier="thorough", seed=0):
    src, expect = make(tier, seed)
    with open(os.path.join(crate_dir, "src", "lib.rs"), "w") as f:
        f.write(src)
    return expect
