"""W1-W5: agreement between the writer and the two readers of every impl."""
from . import facts, interp, wire
from .facts import ty_str, unify
from .interp import C, is_c
from .wire import Atom, vs

SER = "epserde::ser::SerializeInner"
DES = "epserde::deser::DeserializeInner"
ERR = "epserde::deser::Error"


def same_type(a, b):
    m1, m2 = {}, {}
    return unify(a, b, m1) and unify(b, a, m2)


def canon_params(t):
    """every type parameter renamed to index 0 / its own name dropped (SerIter<'a,T,I> vs Vec<T>)"""
    if not isinstance(t, tuple) or not t:
        return t
    if t[0] == "param":
        return ("param", "_", 0)
    return tuple(canon_params(x) if isinstance(x, tuple) else x for x in t)


def canon_atoms(atoms):
    return [Atom(a.k, canon_params(a.ty), a.n, a.src, a.atom, a.mode, a.sp, canon_atoms(a.body) if a.body else None, a.name, a.content) for a in atoms]


def canon_statics(st):
    return {canon_params(k): v for k, v in st.items()}


def implied_statics(im):
    """Copy kind facts implied by the where-clauses of an impl (T: ZeroCopy => Copy(T)=Zero)."""
    out = {}
    for pj in im.preds:
        if "trait" not in pj:
            continue
        tid = im.crate.def_id(pj["trait"])
        args = im.crate.gargs(pj["a"])
        if not args:
            continue
        if tid.endswith("::ZeroCopy"):
            out[("copy", args[0])] = "Zero"
        elif tid.endswith("::DeepCopy"):
            out[("copy", args[0])] = "Deep"
    return out


def impl_key(im):
    return ty_str(im.self_ty)


class Triple:
    def __init__(self, key, ser_impl, des_impl):
        self.key = key
        self.ser_impl = ser_impl
        self.des_impl = des_impl
        self.paths = {}     # side -> [WPath]
        self.errors = {}
        self.derived = bool((ser_impl and ser_impl.derived) or (des_impl and des_impl.derived))
        self.crate = (ser_impl or des_impl).crate.name
        self.loc = (ser_impl or des_impl).loc()


def collect(u, w, crate_filter=None):
    """All (SerializeInner, DeserializeInner) impl pairs of the universe with their wire paths."""
    sers = u.impls_by_trait.get(SER, [])
    dess = u.impls_by_trait.get(DES, [])
    used = set()
    triples = []
    for s in sers:
        if crate_filter and s.crate.name not in crate_filter:
            continue
        d = None
        for cand in dess:
            if cand.crate is s.crate and same_type(s.self_ty, cand.self_ty):
                d = cand
                break
        if d is not None:
            used.add(id(d))
        triples.append(Triple(impl_key(s), s, d))
    for d in dess:
        if crate_filter and d.crate.name not in crate_filter:
            continue
        if id(d) not in used:
            triples.append(Triple(impl_key(d), None, d))
    for t in triples:
        t.all_triples = triples
        for side, im, meth in (("ser", t.ser_impl, "_serialize_inner"),
                               ("full", t.des_impl, "_deserialize_full_inner"),
                               ("eps", t.des_impl, "_deserialize_eps_inner")):
            if im is None:
                continue
            bid = im.item_id(meth)
            b = u.body(bid) if bid else None
            if b is None or b.thir is None:
                t.errors[side] = "no body for " + meth
                continue
            try:
                ip, paths = w.extract(b, side)
                t.paths[side] = paths
            except interp.Unsupported as ex:
                t.errors[side] = "unsupported: %s" % ex
            except RecursionError:
                t.errors[side] = "recursion limit"
    return triples


# ---------------------------------------------------------------------- pairing
def atom_index(wp, k):
    for i, a in enumerate(wp.atoms):
        if a.atom == k:
            return i
    return None


def const_of(v):
    if is_c(v):
        return v[1]
    if isinstance(v, tuple) and v and v[0] == "namedc":
        return v[2]
    if isinstance(v, tuple) and v and v[0] == "cast":
        return const_of(v[1])
    return None


def mentions_atom(v, k, depth=0):
    if not isinstance(v, tuple) or depth > 10:
        return False
    if v == ("atom", k) or v == ("ref", 0):
        return True
    return any(mentions_atom(x, k, depth + 1) for x in v if isinstance(x, tuple))


def strip_casts(v):
    while isinstance(v, tuple) and v and v[0] in ("cast", "tryok", "unwrapped"):
        v = v[1]
    return v


INT_BITS = {"u8": 8, "i8": 8, "u16": 16, "i16": 16, "u32": 32, "i32": 32, "u64": 64, "i64": 64, "usize": 64, "isize": 64,
            "u128": 128, "i128": 128, "bool": 1, "char": 32}


def narrowing_cast(v, rp):
    """Description of the first value-losing cast between the value read and v, or None."""
    chain = []
    x = v
    while isinstance(x, tuple) and x and x[0] in ("cast", "tryok", "unwrapped"):
        if x[0] == "cast":
            chain.append(x[2])
        x = x[1]
    if not (isinstance(x, tuple) and x and x[0] == "atom"):
        return None
    cur = None
    for a in rp.atoms:
        if a.atom == x[1] and a.k == "F":
            cur = a.ty
    if cur is None or cur[0] != "prim":
        return None
    for t in reversed(chain):
        if t[0] != "prim" or t[1] not in INT_BITS or cur[1] not in INT_BITS:
            return None
        if INT_BITS[t[1]] < INT_BITS[cur[1]]:
            return "%s narrowed to %s" % (cur[1], t[1])
        cur = t
    return None


# writer forms that a reader refuses by design with a panic (one named type each, with the reason)
DECLARED_REFUSALS = {
    "RangeInclusive<Idx>": "an exhausted inclusive range cannot be rebuilt through the public API of RangeInclusive: both readers assert that the flag is false",
}


def selectors_compatible(wp, rp):
    # reader tag selectors against writer constants at the same position
    for s in rp.selectors:
        if s[0] == "eq":
            av = strip_casts(s[1])
            if isinstance(av, tuple) and av and av[0] == "atom":
                i = atom_index(rp, av[1])
                if i is None or i >= len(wp.atoms):
                    continue
                wc = const_of(wp.atoms[i].src)
                rc = const_of(s[2])
                if wc is not None and rc is not None and wc != rc:
                    return False
        elif s[0] == "else":
            av = strip_casts(s[1])
            if isinstance(av, tuple) and av and av[0] == "atom":
                i = atom_index(rp, av[1])
                if i is None or i >= len(wp.atoms):
                    continue
                wc = const_of(wp.atoms[i].src)
                if wc is not None:
                    for neg in s[2]:
                        if neg[0] == "eq" and const_of(neg[2]) == wc:
                            return False
    # writer variant against the variant the reader builds
    wv = [s for s in wp.selectors if s[0] == "variant" and s[1] == ("self",)]
    if wv and isinstance(rp.value, tuple) and rp.value and rp.value[0] == "adt":
        for s in wv:
            if rp.value[1] == s[2] and rp.value[2] != s[3]:
                return False
    return True


def zero_exprs(statics):
    """Expressions known to be zero under the static facts of a path pair."""
    z = set()
    for k, v in statics.items():
        if v is True and isinstance(k, tuple) and k and k[0] == "bin" and k[1] == "Eq":
            a, b = k[2], k[3]
            if b == C(0):
                z.add(a)
            elif a == C(0):
                z.add(b)
    return z


def drop_zero(ip, atoms, z):
    out = []
    for a in atoms:
        if a.k == "Z":
            sz = ip.size_of(a.ty)
            if sz in z or a.n in z or ip.mul(a.n, sz) in z or sz == C(0) or a.n == C(0):
                continue
        if a.k == "B" and (a.n in z or a.n == C(0)):
            continue
        if a.k == "R" and (a.n in z or a.n == C(0)):
            continue
        out.append(a)
    return out


class Expander:
    """F(V) -> V's own writer atoms, for closed V whose writer has one selector-free path."""

    def __init__(self, u, w):
        self.u = u
        self.w = w
        self.cache = {}
        self.ip = interp.Interp(u, None)

    def writer_atoms(self, V):
        if V in self.cache:
            return self.cache[V]
        self.cache[V] = None
        if facts.has_param(V):
            return None
        for im in self.u.impls_by_trait.get(SER, []):
            m = {}
            if not unify(im.self_ty, V, m):
                continue
            if facts.has_param(im.self_ty):
                # generic impl instantiated at a closed type: extraction with substitution
                pass
            bid = im.item_id("_serialize_inner")
            b = self.u.body(bid)
            if b is None:
                return None
            gens = b.generics or im.generics
            targs = []
            for g in gens:
                a = m.get(g["index"])
                if a is None and g["kind"] == "const":
                    a = m.get(g["name"])
                targs.append(a if a is not None else ("param", g["name"], g["index"]))
            try:
                ip, paths = self.w.extract(b, "ser", targs=tuple(targs) if targs else None)
            except (interp.Unsupported, RecursionError):
                return None
            oks = [p for p in paths if p.outcome == "ok"]
            if len(oks) != 1 or oks[0].selectors:
                keys = set(tuple(a.key() for a in p.atoms) for p in oks)
                if len(keys) != 1:
                    return None
            self.cache[V] = oks[0].atoms
            return oks[0].atoms
        return None

    def expand(self, atoms, depth=0):
        if depth > 3:
            return atoms
        out = []
        remap = {}
        changed = False
        for i, a in enumerate(atoms):
            if a.k == "F" and a.ty is not None and not facts.has_param(a.ty):
                sub = self.writer_atoms(a.ty)
                if sub is not None and not (len(sub) == 1 and sub[0].k == "F" and sub[0].ty == a.ty):
                    base = len(out)
                    remap[i] = base
                    for sa in self.expand(sub, depth + 1):
                        na = Atom(sa.k, sa.ty, shift_refs(sa.n, base), sa.src, a.atom, a.mode, a.sp, sa.body, sa.name, sa.content)
                        out.append(na)
                    changed = True
                    continue
            if a.k == "R":
                nb = self.expand(a.body, depth + 1)
                remap[i] = len(out)
                out.append(Atom("R", n=a.n, body=nb, sp=a.sp))
                continue
            remap[i] = len(out)
            out.append(Atom(a.k, a.ty, a.n, a.src, a.atom, a.mode, a.sp, a.body, a.name, a.content))
        for a in out:
            if a.n is not None:
                a.n = remap_refs(a.n, remap) if not getattr(a, "_shifted", False) else a.n
        return out


def shift_refs(v, base):
    if isinstance(v, tuple) and v:
        if v[0] == "ref":
            return ("ref_abs", v[1] + base)
        if v[0] == "bin":
            return ("bin", v[1], shift_refs(v[2], base), shift_refs(v[3], base))
    return v


def remap_refs(v, remap):
    if isinstance(v, tuple) and v:
        if v[0] == "ref":
            return ("ref", remap.get(v[1], v[1]))
        if v[0] == "ref_abs":
            return ("ref", v[1])
        if v[0] == "bin":
            return ("bin", v[1], remap_refs(v[2], remap), remap_refs(v[3], remap))
    return v


def equal_under(exp, wa, ra, statics):
    z = zero_exprs(statics)
    ip = exp.ip
    a = drop_zero(ip, wa, z)
    b = drop_zero(ip, ra, z)
    if wire.atoms_equal(a, b):
        return True
    ea, eb = exp.expand(a), exp.expand(b)
    return wire.atoms_equal(ea, eb)


def show_atoms(atoms):
    return " ".join(a.show() for a in atoms) or "ε"


# ---------------------------------------------------------------------- rules
def check_triple(t, exp, rep, modes=("full", "eps"), want=("W1", "W2", "W3", "W4", "W5", "PROB"), w4_sides=None, prob_sides=None):
    """Apply W1..W5 to one impl; findings are added to rep with rule ids."""
    key = t.key
    # extraction failures are fail-closed
    for side, msg in t.errors.items():
        if side == "ser" or side in modes:
            rep.add("EXTRACT", "%s:%s" % (key, side), "cannot extract wire term of %s of `%s`: %s" % (side, key, msg), t.loc)
    ser = t.paths.get("ser")
    if "W5" in want or "W5-view" in want:
        if t.ser_impl is not None and t.des_impl is None and "W5-view" in want:
            # write-only views: what they write must be what the readers of their SerType consume
            st = t.ser_impl.assoc_ty("SerType")
            rep.count("write_only_views")
            t.write_only = True
            target = None
            for o in getattr(t, "all_triples", []) or []:
                if o.ser_impl is not None and o.des_impl is not None and st is not None and same_type(canon_params(o.ser_impl.self_ty), canon_params(st)):
                    target = o
            if st is None or target is None:
                rep.oblige(False)
                rep.add("W5-view", key + ":sertype", "write-only type `%s` has SerType `%s`, which has no deserializer" % (key, ty_str(st) if st else None), t.loc)
            else:
                for p in t.paths.get("ser", []) or []:
                    if p.outcome != "ok":
                        continue
                    if len(p.atoms) == 1 and p.atoms[0].k == "F" and same_type(canon_params(p.atoms[0].ty), canon_params(st)):
                        rep.oblige(True)
                        continue
                    pst = dict(p.statics)
                    pst.update(implied_statics(t.ser_impl))
                    cands = [q for q in target.paths.get("ser", []) or [] if q.outcome == "ok" and wire.statics_compatible(canon_statics(q.statics), canon_statics(pst))]
                    ok = bool(cands) and all(wire.atoms_equal(canon_atoms(p.atoms), canon_atoms(q.atoms)) for q in cands)
                    rep.oblige(ok)
                    if not ok:
                        rep.add("W5-view", "%s:%s" % (key, p.cond_show()), "write-only view `%s` writes [%s] but its SerType `%s`, as which it is read back, is written/read as [%s]"
                                % (key, p.show(), ty_str(st), " | ".join(q.show() for q in cands) or "nothing compatible"), t.loc)
        if t.ser_impl is not None and t.des_impl is None and "W5" in want:
            # not a view (a view is read back as its SerType): a serializable type without any reader
            st = t.ser_impl.assoc_ty("SerType")
            selfish = st is None or same_type(canon_params(st), canon_params(t.ser_impl.self_ty)) or st == ("param", "Self", 0)
            rep.oblige(not selfish)
            if selfish:
                rep.add("W5", key, "`%s` can be serialized (SerType = Self) but has no DeserializeInner impl: it cannot be read back" % key, t.loc)
        if t.ser_impl is None and t.des_impl is not None and "W5" in want:
            rep.add("W5", key, "`%s` has a DeserializeInner impl but no SerializeInner impl" % key, t.loc)
    # path problems
    if "PROB" in want:
        for side in (("ser",) + tuple(modes)) if prob_sides is None else prob_sides:
            for p in t.paths.get(side, []) or []:
                if p.outcome == "panic":
                    continue
                for pr in p.problems:
                    rep.add("WIRE-" + pr[0], "%s:%s" % (key, side),
                            "%s of `%s`: %s %s" % (side, key, pr[0], " ".join(str(x) for x in pr[1:])[:200]), t.loc)
    if ser is None:
        return
    ser_ok = [p for p in ser if p.outcome == "ok"]
    if not ser_ok and t.ser_impl is not None:
        rep.add("W1", key + ":ser", "writer of `%s` has no successful path" % key, t.loc)
    for mode in modes:
        rd = t.paths.get(mode)
        if rd is None:
            continue
        rd_ok = [p for p in rd if p.outcome == "ok"]
        # W1: every reader path agrees with every compatible writer path
        if "W1" in want:
            for r in rd_ok:
                cands = [w for w in ser_ok if wire.statics_compatible(w.statics, r.statics) and selectors_compatible(w, r)]
                rep.oblige(bool(cands))
                if not cands:
                    rep.add("W1-orphan-reader", "%s:%s:%s" % (key, mode, r.cond_show()),
                            "%s reader of `%s` accepts a stream form [%s] (under %s) that its writer never produces"
                            % (mode, key, r.show(), r.cond_show() or "no condition"), t.loc)
                for w in cands:
                    st = dict(w.statics)
                    st.update(r.statics)
                    ok = equal_under(exp, w.atoms, r.atoms, st)
                    rep.oblige(ok)
                    rep.count("path_pairs_compared")
                    if not ok:
                        rep.add("W1", "%s:%s:%s" % (key, mode, r.cond_show() or w.cond_show()),
                                "`%s`: writer emits [%s] but the %s reader consumes [%s]%s"
                                % (key, w.show(), mode, r.show(), (" when " + (r.cond_show() or w.cond_show())) if (r.cond_show() or w.cond_show()) else ""),
                                t.loc, {"writer": w.show(), "reader": r.show(), "writer_cond": w.cond_show(), "reader_cond": r.cond_show()})
            for w in ser_ok:
                cands = [r for r in rd_ok if wire.statics_compatible(w.statics, r.statics) and selectors_compatible(w, r)]
                if not cands and key in DECLARED_REFUSALS and any(r.outcome == "panic" and wire.statics_compatible(w.statics, r.statics) and selectors_compatible(w, r) for r in rd):
                    rep.count("declared_refusals_matched")
                    continue                          # refused by a panicking reader path, by design (table above); W-REFUSE looks at it
                rep.oblige(bool(cands))
                if not cands:
                    rep.add("W1-unread", "%s:%s:%s" % (key, mode, w.cond_show()),
                            "`%s`: the form [%s] written under %s has no accepting path in the %s reader"
                            % (key, w.show(), w.cond_show() or "no condition", mode), t.loc)
        if "W2" in want:
            check_w2(t, ser_ok, rd_ok, mode, rep)
        if "W3" in want:
            check_w3(t, ser_ok, rd, mode, rep)
    if "W4" in want and not (t.des_impl is None and "W5-view" not in want):
        w4s = (("ser",) + tuple(modes)) if w4_sides is None else w4_sides
        for side in w4s:
            for p in t.paths.get(side, []) or []:
                if p.outcome != "ok":
                    continue
                check_w4(t, side, p, rep)


def field_of_src(v):
    """(variant or None, field index) when v denotes a field of self."""
    v = strip_casts(v)
    while isinstance(v, tuple) and v and v[0] in ("call",) and v[2]:
        # accessor such as RangeInclusive::start(self)
        return None
    if isinstance(v, tuple) and v:
        if v[0] == "field" and v[1] == ("self",):
            return (None, v[2])
        if v[0] == "vfield" and v[1] == ("self",):
            return (v[2], v[3])
    return None


def atoms_in(v, acc=None, depth=0):
    if acc is None:
        acc = set()
    if not isinstance(v, tuple) or depth > 12:
        return acc
    if v and v[0] == "atom":
        acc.add(v[1])
        return acc
    for x in v:
        if isinstance(x, tuple):
            atoms_in(x, acc, depth + 1)
    return acc


def check_w2(t, ser_ok, rd_ok, mode, rep):
    """k-th atom: writer source field == reader sink field."""
    for r in rd_ok:
        val = r.value
        if not (isinstance(val, tuple) and val and val[0] == "adt"):
            continue
        # sink of each atom: field index of the returned aggregate
        sink = {}
        for (fi, fv) in val[3]:
            for k in atoms_in(fv):
                sink.setdefault(k, set()).add(fi)
        for w in ser_ok:
            if not (wire.statics_compatible(w.statics, r.statics) and selectors_compatible(w, r)):
                continue
            if len(w.atoms) != len(r.atoms):
                continue
            for i, (wa, ra) in enumerate(zip(w.atoms, r.atoms)):
                if wa.k != "F" or ra.k != "F" or ra.atom is None:
                    continue
                fs = field_of_src(wa.src)
                if fs is None:
                    continue
                sk = sink.get(ra.atom)
                rep.count("field_correspondences")
                if sk is None:
                    # value read but not stored in the result
                    if const_of(wa.src) is None:
                        rep.oblige(False)
                        rep.add("W2-dropped", "%s:%s:field%d" % (t.key, mode, fs[1]),
                                "`%s` (%s): the value written from field %d is read but does not reach the result" % (t.key, mode, fs[1]), t.loc)
                    continue
                ok = sk == {fs[1]}
                rep.oblige(ok)
                if not ok:
                    rep.add("W2", "%s:%s:field%d" % (t.key, mode, fs[1]),
                            "`%s` (%s): atom %d is written from field %d but stored into field(s) %s" % (t.key, mode, i, fs[1], sorted(sk)), t.loc)


def check_w3(t, ser_ok, rd, mode, rep):
    """Tag maps: writer variant->tag injective; reader tag->variant its inverse; else arm = InvalidTag(tag)."""
    wmap = {}
    for w in ser_ok:
        vs_ = [s for s in w.selectors if s[0] == "variant" and s[1] == ("self",)]
        if not vs_:
            continue
        if not w.atoms:
            rep.add("W3", "%s:writer:variant%s" % (t.key, vs_[0][3]), "`%s`: variant %s is written without any tag" % (t.key, vs_[0][4]), t.loc)
            continue
        tag = w.atoms[0]
        c = const_of(tag.src)
        if c is None or tag.k not in ("F", "B"):
            rep.add("W3", "%s:writer:variant%s" % (t.key, vs_[0][3]), "`%s`: first atom of variant %s is not a constant tag" % (t.key, vs_[0][4]), t.loc)
            continue
        wmap[vs_[0][3]] = (c, tag.ty, vs_[0][4])
    if not wmap:
        return
    t.is_sum = True
    rep.count("sum_types_%s" % mode)
    inv = {}
    for vi, (c, ty, name) in wmap.items():
        if c in inv:
            rep.add("W3", "%s:writer:tag%d" % (t.key, c), "`%s`: variants %s and %s are written with the same tag %d" % (t.key, inv[c][1], name, c), t.loc)
        inv[c] = (vi, name)
    rep.oblige(len(inv) == len(wmap))
    if rd is None:
        return
    check_w3_reader(t, inv, rd, mode, rep)


class _Unk(Exception):
    pass


def _wrap(n, ty):
    if not (isinstance(ty, tuple) and ty and ty[0] == "prim" and ty[1] in INT_BITS):
        raise _Unk()
    bits = INT_BITS[ty[1]]
    n &= (1 << bits) - 1
    if ty[1].startswith("i") and n >= (1 << (bits - 1)):
        n -= 1 << bits
    return n


def ev_int(v, x, k):
    """Value of expression v when the value read as atom k is x (integers and booleans only)."""
    if v == ("atom", k):
        return x
    if not isinstance(v, tuple) or not v:
        raise _Unk()
    h = v[0]
    if h == "c":
        if isinstance(v[1], bool):
            return 1 if v[1] else 0
        if isinstance(v[1], int):
            return v[1]
        raise _Unk()
    if h == "namedc":
        if isinstance(v[2], int):
            return int(v[2])
        raise _Unk()
    if h in ("tryok", "unwrapped"):
        return ev_int(v[1], x, k)
    if h == "cast":
        return _wrap(ev_int(v[1], x, k), v[2])
    if h == "call" and v[1] in ("from", "into") and len(v[2]) == 1:
        return ev_int(v[2][0], x, k)      # lossless by construction (From between integers)
    if h == "un" and v[1] == "Not":
        return 0 if ev_int(v[2], x, k) else 1
    if h == "bin":
        op = v[1]
        l = ev_int(v[2], x, k)
        if op == "And":
            return 1 if (l and ev_int(v[3], x, k)) else 0
        if op == "Or":
            return 1 if (l or ev_int(v[3], x, k)) else 0
        r = ev_int(v[3], x, k)
        if op == "Eq":
            return int(l == r)
        if op == "Ne":
            return int(l != r)
        if op == "Lt":
            return int(l < r)
        if op == "Le":
            return int(l <= r)
        if op == "Gt":
            return int(l > r)
        if op == "Ge":
            return int(l >= r)
        if op == "BitAnd":
            return l & r
        if op == "BitOr":
            return l | r
        if op == "BitXor":
            return l ^ r
        if op == "Shr":
            return l >> r
        if op == "Rem" and r:
            return l % r
        # Add/Sub/Mul/Shl can wrap or panic: not part of any accepted idiom for a tag test
        raise _Unk()
    raise _Unk()


def _consts_in(v, acc, depth=0):
    if not isinstance(v, tuple) or depth > 12:
        return
    if v and v[0] == "c" and isinstance(v[1], int) and not isinstance(v[1], bool):
        acc.add(v[1])
    elif v and v[0] == "namedc" and isinstance(v[2], int):
        acc.add(int(v[2]))
    for y in v:
        if isinstance(y, tuple):
            _consts_in(y, acc, depth + 1)


def tag_holds(r, k, x):
    """Do all conditions of reader path r that depend on the tag (atom k) hold when the tag read is x?
    Conditions that do not mention the tag are other run-time facts (payload, lengths) and are ignored."""
    for c in r.raw.conds:
        kind = c[0]
        if kind in ("true", "false"):
            if not mentions_atom(c[1], k):
                continue
            if bool(ev_int(c[1], x, k)) != (kind == "true"):
                return False
        elif kind == "eq":
            if not mentions_atom(c[1], k):
                continue
            cv = const_of(c[2])
            if cv is None:
                raise _Unk()
            if ev_int(c[1], x, k) != cv:
                return False
        elif kind == "else":
            if not mentions_atom(c[1], k):
                continue
            val = ev_int(c[1], x, k)
            for n_ in c[2]:
                cv = const_of(n_[2])
                if cv is None:
                    raise _Unk()
                if val == cv:
                    return False
    return True


def check_w3_reader(t, inv, rd, mode, rep):
    """Semantic tag table of one reader: for every representative tag value x, the set of reader paths whose
    tag-dependent conditions hold at x is evaluated exactly (integer semantics incl. casts). Written tags must build
    their own variant and nothing else; every other value must end in Err(InvalidTag(x)) on every path."""
    live = [r for r in rd if r.atoms and r.atoms[0].k == "F" and r.atoms[0].atom is not None]
    if not live:
        rep.oblige(False)
        rep.add("W3", "%s:%s:no-tag-read" % (t.key, mode), "`%s` (%s): no reader path reads a tag first" % (t.key, mode), t.loc)
        return
    tty = live[0].atoms[0].ty
    if not (isinstance(tty, tuple) and tty[0] == "prim" and tty[1] in ("u8", "u16", "u32", "u64", "usize")):
        # bool / char / signed readers decode several byte patterns to one value (bool: any non-zero byte is true),
        # so foreign tag bytes would be accepted below the level this table sees
        rep.oblige(False)
        rep.add("W3", "%s:%s:tag-type" % (t.key, mode), "`%s` (%s): the tag is read as %s, not as an unsigned integer: its reader is not injective on the bytes of the stream, foreign tag bytes are mapped to a variant" % (t.key, mode, ty_str(tty)), t.loc)
        return
    bits = INT_BITS[tty[1]]
    if bits <= 8:
        dom = list(range(1 << bits))
    else:
        cs = set(inv)
        for r in rd:
            for c in r.raw.conds:
                _consts_in(c, cs)
        dom = set()
        for c0 in cs | {0}:
            for d in (-1, 0, 1):
                dom.add(c0 + d)
            for sh in (8, 16, 32):
                dom.add(c0 + (1 << sh))       # values that agree with c0 after a narrowing cast
        dom |= {(1 << bits) - 1, (1 << (bits - 1))}
        dom = sorted(v for v in dom if 0 <= v < (1 << bits))
    rep.count("tag_values_evaluated", len(dom))
    reported = set()

    def add(rule, key, msg):
        if key not in reported:
            reported.add(key)
            rep.add(rule, key, msg, t.loc)

    for x in dom:
        try:
            sat = [r for r in rd if r.atoms and r.atoms[0].atom is not None and tag_holds(r, r.atoms[0].atom, x)]
        except _Unk:
            rep.oblige(False)
            add("W3", "%s:%s:opaque-tag-test" % (t.key, mode), "`%s` (%s): a condition on the tag is outside the integer comparisons the checker evaluates; the tag table cannot be decided" % (t.key, mode))
            return
        built = set()
        rejected = False
        for r in sat:
            k = r.atoms[0].atom
            if r.outcome == "ok" and isinstance(r.value, tuple) and r.value and r.value[0] == "adt":
                built.add(r.value[2])
            elif r.outcome == "ok":
                built.add(None)
            elif r.outcome == "err":
                ev = r.value
                if isinstance(ev, tuple) and ev and ev[0] == "into":
                    ev = ev[1]
                is_reject = len(r.atoms) == 1
                if isinstance(ev, tuple) and ev and ev[0] == "adt" and ev[1] == ERR and variant_name(t, ERR, ev[2]) == "InvalidTag":
                    rejected = True
                    praw = dict(ev[3]).get(0)
                    try:
                        pv = ev_int(praw, x, k)
                    except _Unk:
                        pv = None
                    if x not in inv:
                        ok = pv == x
                        rep.oblige(ok)
                        if not ok:
                            nc = narrowing_cast(praw, r)
                            why = ("InvalidTag carries a truncated copy of the tag (%s)" % nc) if nc else ("InvalidTag carries %s instead of the tag that was read (%s)" % (vs(strip_casts(praw)), vs(("atom", k))))
                            add("W3-payload", "%s:%s" % (t.key, mode), "`%s` (%s): foreign tags are not rejected with the offending tag: %s (tag %d -> payload %s)" % (t.key, mode, why, x, pv))
                elif is_reject and x not in inv:
                    rejected = True
                    rep.oblige(False)
                    add("W3-payload", "%s:%s" % (t.key, mode), "`%s` (%s): foreign tags are not rejected with the offending tag: error is not InvalidTag" % (t.key, mode))
            elif r.outcome == "panic" and x not in inv and any(c[0] in ("true", "false", "eq", "else") and mentions_atom(c[1], k) for c in r.raw.conds):
                rep.oblige(False)
                add("W3", "%s:%s:foreign-panics" % (t.key, mode), "`%s` (%s): a tag no variant writes (e.g. %d) reaches a panic instead of Err(InvalidTag)" % (t.key, mode, x))
        if x in inv:
            vi, name = inv[x]
            ok = built == {vi} and not rejected
            rep.oblige(ok)
            if vi not in built:
                if built:
                    add("W3", "%s:%s:tag%s" % (t.key, mode, x), "`%s` (%s): tag %s is written for variant %s but read back as variant index %s" % (t.key, mode, x, name, sorted(built, key=str)))
                else:
                    add("W3", "%s:%s:variant%s" % (t.key, mode, vi), "`%s` (%s): tag %d written for variant %s is not accepted by the reader" % (t.key, mode, x, name))
            elif len(built) > 1:
                add("W3", "%s:%s:tag%s" % (t.key, mode, x), "`%s` (%s): tag %s (variant %s) can also be read back as variant index %s" % (t.key, mode, x, name, sorted(built - {vi}, key=str)))
            elif rejected:
                add("W3", "%s:%s:variant%s" % (t.key, mode, vi), "`%s` (%s): tag %d written for variant %s can be rejected as InvalidTag" % (t.key, mode, x, name))
        else:
            ok = not built and rejected
            rep.oblige(ok)
            if built:
                low = [c0 for c0 in inv if c0 != x and any((x - c0) % (1 << sh) == 0 for sh in (8, 16, 32))]
                if low and x > max(inv) + 1:
                    add("W3-narrow", "%s:%s" % (t.key, mode), "`%s` (%s): the tag is matched after a lossy cast: the foreign tag %d, which agrees with tag %d on the low bits, is mapped to variant index %s" % (t.key, mode, x, low[0], sorted(built, key=str)))
                else:
                    add("W3", "%s:%s:foreign" % (t.key, mode), "`%s` (%s): tag %d, which no variant writes, is mapped to variant index %s instead of being rejected" % (t.key, mode, x, sorted(built, key=str)))
            elif not rejected:
                add("W3", "%s:%s:no-else" % (t.key, mode), "`%s` (%s): no path rejects the foreign tag %d with InvalidTag" % (t.key, mode, x))


_variant_names = {}


def variant_name(t, adt, idx):
    u = t.universe
    ent = u.adts.get(adt)
    if ent is None:
        return None
    c, aj = ent
    for v in aj["variants"]:
        if v["index"] == idx:
            return v["name"]
    return None


def check_w4(t, side, p, rep):
    """Every raw block Z(T,_) is immediately preceded by the alignment point of T's unit."""
    w = t.wire

    def walk(atoms):
        prev = None
        for a in atoms:
            if a.k == "Z":
                rep.count("raw_blocks")
                ok = prev is not None and prev.k == "A" and w.unit_canon(prev.ty) == w.unit_canon(a.ty)
                rep.oblige(ok)
                if not ok:
                    rep.add("W4", "%s:%s:%s" % (t.key, side, ty_str(a.ty)),
                            "`%s` (%s): raw block of %s is not immediately preceded by align::<%s> (found %s)"
                            % (t.key, side, ty_str(a.ty), ty_str(a.ty), prev.show() if prev else "nothing"), t.loc)
            if a.k == "A":
                rep.count("align_points")
            if a.k == "R":
                walk(a.body)
            prev = a
    walk(p.atoms)


def check_refusals(t, mode, rep):
    """A reader path that panics depending on the value of something it has read refuses a set of stream values.
    That set must be declared on the writer's side: at the same position every writer path writes a constant, chosen
    by a selector on the value (so the `when` of the writer term says which values are refused). A writer that
    computes the atom by some other expression can hand ordinary values to the refusing reader."""
    ser = [p for p in (t.paths.get("ser") or []) if p.outcome == "ok"]
    rd = t.paths.get(mode) or []
    n = 0
    for r in rd:
        if r.outcome != "panic":
            continue
        ks = []
        for c in r.raw.conds:
            if c[0] in ("true", "false"):
                for i, a in enumerate(r.atoms):
                    if a.atom is not None and mentions_atom(c[1], a.atom):
                        # only pure tests of the value itself (comparisons of the atom with constants); bounds and
                        # layout assertions that merely involve a length are not refusals of a value
                        try:
                            ev_int(c[1], 0, a.atom)
                        except _Unk:
                            continue
                        ks.append(i)
        for i in sorted(set(ks)):
            n += 1
            srcs = []
            for w in ser:
                if i < len(w.atoms):
                    srcs.append(w.atoms[i].src)
            ok = bool(srcs) and all(const_of(x) is not None for x in srcs)
            rep.oblige(ok)
            if not ok:
                rep.add("W-REFUSE", "%s:%s:atom%d" % (t.key, mode, i), "`%s` (%s): the reader panics depending on the value of stream atom #%d, but the writer does not pick that atom from constants under a selector on the value (it writes %s): values outside a declared exclusion can reach the refusing reader"
                        % (t.key, mode, i, [vs(x)[:60] for x in srcs][:2]), t.loc)
    return n
