"""Interpreter hooks recognising the stream primitives of epserde by *resolved callee*
(trait + method), never by spelling of the call site."""
from .interp import C, is_c, short

RESULT = "core::result::Result"


def ok(v):
    return ("adt", RESULT, 0, ((0, v),))


UNIT = ("tuple", ())


def is_backend(v):
    return isinstance(v, tuple) and v and v[0] == "backend"


def norm_recv(v, depth=0, resolve=None):
    """A wrapper struct that holds the stream handle in a field (WriterWithPos, ReaderWithPos,
    SliceWithPos, SchemaWriter built around the backend) is the stream handle. `resolve` loads
    references to local places found inside the wrapper (SchemaWriter { writer: &mut W, .. })."""
    if isinstance(v, tuple) and v and depth < 5:
        if v[0] == "mref" and resolve is not None:
            try:
                v2 = resolve(v)
            except Exception:
                v2 = v
            if v2 != v:
                return norm_recv(v2, depth + 1, resolve)
        if v[0] == "backend":
            return ("backend",)
        if v[0] == "adt":
            for (_i, fv) in v[3]:
                if norm_recv(fv, depth + 1, resolve) == ("backend",):
                    return ("backend",)
    return v


class WireHooks:
    """Events appended to st.events:
      ('W', recv, kind, info..., span)   writer events  kind in B|F|Z|A|Flush
      ('R', recv, kind, info..., span)   reader events  kind in B|F|Z|A
      ('Peek', n, id, span) ('Skip', n, span)      SliceWithPos cursor operations
      ('CheckZC', V) etc. are not needed: check functions are inlined and leave conditions.
    """

    def __init__(self):
        self.npeek = 0

    def new_atom(self, st):
        st.natoms += 1
        return st.natoms - 1

    opaque_results = False     # error-discipline rules: a stream primitive may fail, its Result is not known to be Ok

    def call(self, ip, frame, st, e, callee, dj, targs, resolved, rargs, args):
        r = self._call(ip, frame, st, e, callee, dj, targs, resolved, rargs, args)
        if r is None or not self.opaque_results:
            return r
        out = []
        for (s2, v) in r:
            if isinstance(v, tuple) and len(v) == 4 and v[0] == "adt" and v[1] == RESULT and v[2] == 0:
                v = ("call", dj.get("name"), (dict(v[3]).get(0),), ("stream-primitive", callee))
            out.append((s2, v))
        return out

    def _call(self, ip, frame, st, e, callee, dj, targs, resolved, rargs, args):
        if dj["krate"] not in ("epserde", "core"):
            return None
        sp = frame.crate.span(e["sp"])
        ti = ip.u.trait_item_of(resolved or callee) or callee
        sh = short(ti)
        name = dj.get("name")
        a0 = norm_recv(ip.load_ref(st, args[0]), 0, lambda r: ip.load_ref(st, r)) if args else None
        if dj["krate"] == "core":
            # backend.data[..n]   (Index::index on the remaining slice)
            if sh in ("Index::index", "IndexMut::index_mut") and len(args) == 2 and a0 == ("bdata",):
                rng = ip.load_ref(st, args[1])
                n = None
                if isinstance(rng, tuple) and rng and rng[0] == "adt":
                    f = dict(rng[3])
                    if rng[1].endswith("RangeTo"):
                        n = f.get(0)
                    elif rng[1].endswith("::Range") and f.get(0) == C(0):
                        n = f.get(1)
                    elif rng[1].endswith("RangeFull"):
                        n = ("len", ("bdata",))
                    elif rng[1].endswith("RangeFrom"):
                        # the suffix after n bytes: consuming when stored back into backend.data
                        return [(st, ("bdata_from", f.get(0)))]
                if n is None:
                    st.events.append(("UnknownBackendUse", "index of backend.data with " + str(rng)[:80], sp))
                    return [(st, ("unknown", "peek"))]
                self.npeek += 1
                st.events.append(("Peek", n, self.npeek, sp))
                return [(st, ("peek", n, self.npeek))]
            if name == "split_at" and len(args) == 2 and a0 == ("bdata",):
                # (backend.data[..n], backend.data[n..]); panics when n > len, like the index form
                n = ip.load_ref(st, args[1])
                self.npeek += 1
                st.events.append(("Peek", n, self.npeek, sp))
                return [(st, ("tuple", (("peek", n, self.npeek), ("bdata_from", n))))]
            if sh in ("Index::index", "IndexMut::index_mut") and len(args) == 2:
                # indexing of other values: keep as projection, may panic
                base = a0
                idx = ip.load_ref(st, args[1])
                st.events.append(("MayPanic", "index", sp, (base, idx)))
                return [(st, ("index", base, idx))]
            return None
        # ------------------------------------------------------------ writer side
        if sh == "WriteNoStd::write_all" and len(args) == 2:
            buf = ip.load_ref(st, args[1])
            st.events.append(("W", a0, "B", ip.length_of(buf), buf, sp))
            return [(st, ok(UNIT))]
        if sh == "WriteNoStd::flush" and len(args) == 1:
            st.events.append(("W", a0, "Flush", sp))
            return [(st, ok(UNIT))]
        if sh == "WriteWithNames::write" and len(args) == 3:
            V = targs[1] if len(targs) > 1 else None
            st.events.append(("W", a0, "F", V, ip.load_ref(st, args[2]), ip.load_ref(st, args[1]), sp))
            return [(st, ok(UNIT))]
        if sh == "WriteWithNames::align" and len(args) == 1:
            V = targs[1] if len(targs) > 1 else None
            st.events.append(("W", a0, "A", V, sp))
            return [(st, ok(UNIT))]
        if sh == "WriteWithNames::write_bytes" and len(args) == 2:
            V = targs[1] if len(targs) > 1 else None
            buf = ip.load_ref(st, args[1])
            st.events.append(("W", a0, "Z", V, ip.length_of(buf), buf, sp))
            return [(st, ok(UNIT))]
        if sh == "SerializeInner::_serialize_inner" and len(args) == 2:
            V = targs[0] if targs else None
            recv = norm_recv(ip.load_ref(st, args[1]))
            st.events.append(("W", recv, "F", V, ip.load_ref(st, args[0]), None, sp))
            return [(st, ok(UNIT))]
        if sh in ("WriteWithPos::pos", "ReadWithPos::pos") and len(args) == 1:
            return [(st, ("pos", a0, len(st.events)))]
        # ------------------------------------------------------------ reader side
        if sh in ("DeserializeInner::_deserialize_full_inner", "DeserializeInner::_deserialize_eps_inner") and len(args) == 1:
            V = targs[0] if targs else None
            k = self.new_atom(st)
            mode = "full" if sh.endswith("full_inner") else "eps"
            st.events.append(("R", a0, "F", V, mode, k, sp))
            return [(st, ok(("atom", k)))]
        if sh == "ReadWithPos::align" and len(args) == 1:
            T = targs[1] if len(targs) > 1 else None
            st.events.append(("R", a0, "A", T, sp))
            return [(st, ok(UNIT))]
        if sh == "ReadNoStd::read_exact" and len(args) == 2:
            tgt = args[1]
            buf = ip.load_ref(st, tgt)
            k = self.new_atom(st)
            root = tgt if (isinstance(tgt, tuple) and tgt and tgt[0] == "mref") else None
            if isinstance(buf, tuple) and buf and buf[0] == "view":
                # typed storage viewed as bytes
                st.events.append(("R", a0, "Z", buf[2], buf[3], k, sp))
                root = buf[1] if (isinstance(buf[1], tuple) and buf[1] and buf[1][0] == "mref") else root
            elif isinstance(buf, tuple) and buf and buf[0] == "rawslice":
                obj, pointee, elem, n = buf[1], buf[2], buf[3], buf[4]
                if isinstance(obj, tuple) and obj and obj[0] == "mref":
                    root = obj
                pt = pointee
                while isinstance(pt, tuple) and pt[0] == "adt" and pt[1] == "core::mem::maybe_uninit::MaybeUninit":
                    pt = pt[2][0]
                if pt is not None and elem == ("prim", "u8"):
                    st.events.append(("R", a0, "Z", pt, ip.binop("Div", n, ip.size_of(pt)), k, sp))
                else:
                    st.events.append(("R", a0, "B", ip.binop("Mul", n, ip.size_of(elem)), k, sp))
            else:
                st.events.append(("R", a0, "B", ip.length_of(buf), k, sp))
            if root is not None:
                ip.store_ref(st, root, ("atom", k))
            return [(st, ok(UNIT))]
        if sh == "SliceWithPos::skip" and len(args) == 2:
            st.events.append(("Skip", a0, ip.load_ref(st, args[1]), sp))
            return [(st, UNIT)]
        return None
