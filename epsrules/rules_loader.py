"""C08 / C09 / C13 / C14: loaders, ownership of backing memory, error-to-success conversions,
aliasing owners, exposure of uninitialised storage. All on interpreter paths with explicit `?` edges."""
from . import facts, interp, wirehooks, guards, rules_err
from .facts import ty_str, unify
from .guards import label, norm_cond, row_str, outcome_of
from .interp import C, is_c

RESULT = "core::result::Result"


class LoaderHooks(wirehooks.WireHooks):
    """Keeps the top-level (de)serialization entry points opaque."""

    def call(self, ip, frame, st, e, callee, dj, targs, resolved, rargs, args):
        if dj.get("krate") == "epserde" and dj.get("name") in ("deserialize_eps", "deserialize_full", "serialize", "serialize_on_field_write") and dj.get("parent_kind") in ("Trait", None) and frame.depth <= 2:
            lv = tuple(ip.load_ref(st, a) for a in args)
            # what the local places mentioned by the arguments hold right now (provenance of raw views)
            roots = []
            def grab(x):
                if len(x) == 4 and x[0] == "mref":
                    try:
                        roots.append(ip.load_ref(st, x))
                    except Exception:
                        pass
                return False
            mentions(lv, grab)
            st.events.append(("Call", "epserde", dj["name"], callee, frame.crate.span(e["sp"]), dj.get("n"), lv, tuple(roots)))
            return [(st, ("call", dj["name"], lv, None))]
        return wirehooks.WireHooks.call(self, ip, frame, st, e, callee, dj, targs, resolved, rargs, args)


def run_explicit(u, b, params=None, hooks=None):
    ip = interp.Interp(u, hooks or LoaderHooks())
    ip.explicit_try = True
    return ip, ip.run(b, params)


def mentions(v, pred, depth=0):
    if not isinstance(v, tuple) or depth > 16:
        return False
    if pred(v):
        return True
    return any(mentions(x, pred, depth + 1) for x in v if isinstance(x, tuple))


VIEW_FNS = {"as_ref", "as_mut", "unwrap", "expect", "unwrap_unchecked", "deref", "deref_mut", "as_slice", "as_mut_slice", "as_bytes", "borrow", "borrow_mut", "identity", "as_ptr", "as_mut_ptr"}


def is_view_of(v, pred, depth=0):
    """v is a view (reborrow / unwrap / slice / raw view) of a place satisfying pred -- not a copy made from it"""
    if not isinstance(v, tuple) or not v or depth > 24:
        return False
    if pred(v):
        return True
    h = v[0]
    if h in ("rawslice", "elems", "vfield", "field", "index", "tryok", "unwrapped", "okof", "ptrto", "cast", "alignto", "view"):
        return is_view_of(v[1], pred, depth + 1)
    if h == "adt" and v[1] in ("core::option::Option", "core::result::Result") and v[3]:
        return is_view_of(dict(v[3]).get(0), pred, depth + 1)
    if h == "call" and v[1] in VIEW_FNS and v[2]:
        return is_view_of(v[2][0], pred, depth + 1)
    return False


def loaders(u):
    out = []
    for b in u.bodies.values():
        if b.d.get("krate") == "epserde" and b.kind == "AssocFn" and b.thir is not None and b.d.get("name") in ("load_mem", "load_mmap", "mmap") and b.d.get("parent_kind") == "Trait":
            out.append(b)
    return out


def is_uninit_field(v, idx=None):
    """place `(*uninit.as_mut_ptr()).idx` of a MaybeUninit<MemCase> local"""
    if isinstance(v, tuple) and v and v[0] == "field" and isinstance(v[1], tuple) and v[1] and v[1][0] == "ptrto":
        inner = v[1][1]
        if isinstance(inner, tuple) and inner and inner[0] == "elems" and isinstance(inner[1], tuple) and inner[1] and inner[1][0] == "mref":
            return idx is None or v[2] == idx
    return False


def memcase_field_indices(u):
    """(index of the structure field, index of the backend field) of MemCase, by type"""
    for aid, (c, aj) in u.adts.items():
        if aid.endswith("::MemCase"):
            si = bi = None
            for i, f in enumerate(aj["variants"][0]["fields"]):
                t = c.ty(f["ty"])
                if t[0] == "adt" and t[1].endswith("::MemBackend"):
                    bi = i
                elif t[0] == "param":
                    si = i
            return si, bi, (c, aj)
    return None, None, None


def rule_loader_paths(u, rep, want=("LEAK", "RAW", "FILL", "ARG", "CAP")):
    si, bi, mc = memcase_field_indices(u)
    ls = loaders(u)
    for b in ls:
        name = b.d.get("name")
        try:
            ip, paths = run_explicit(u, b)
        except interp.Unsupported as ex:
            rep.add("EXTRACT", name, "cannot analyse loader %s: %s" % (name, ex), b.loc())
            continue
        rep.count("loader_paths", len(paths))
        copying = False
        for p in paths:
            evs = p.events
            out = outcome_of(u, p)
            backend_written = None
            backend_value = None
            released = False
            raw_unowned = None
            read_idx = deser_idx = None
            file_len = read_base = None
            fills = []
            zeroed_whole = False
            for i, e in enumerate(evs):
                if e[0] == "Call":
                    nm = e[2]
                    args = e[6] if len(e) > 6 else ()
                    if e[1] == "alloc" and nm == "alloc":
                        raw_unowned = i
                    if nm in ("from_raw_parts", "from_raw", "from_raw_parts_in") and e[1] == "alloc":
                        raw_unowned = None
                    if nm == "drop_in_place" and any(mentions(a, lambda x: is_uninit_field(x, bi)) for a in args):
                        released = True
                    if nm in ("alloc_zeroed", "zeroed") and e[1] in ("alloc", "core"):
                        zeroed_whole = True
                    if nm == "fill" and len(args) == 2 and args[1] == C(0):
                        tgt = args[0]
                        if isinstance(tgt, tuple) and tgt and tgt[0] == "index" and isinstance(tgt[2], tuple) and tgt[2][0] == "adt" and tgt[2][1].endswith("::RangeFrom"):
                            fills.append((i, tgt[1], dict(tgt[2][3]).get(0)))
                        elif read_idx is None:
                            fills.append((i, tgt, None))      # the whole buffer, before anything is read into it
                    if nm == "deserialize_eps":
                        deser_idx = i
                        if "ARG" in want:
                            a = args[0] if args else None
                            ok = is_view_of(a, lambda x: is_uninit_field(x, bi))
                            if not ok and backend_value is not None and len(e) > 7:
                                # a raw view of the heap buffer / mapping of the very value that was moved into the backend field
                                ok = any(isinstance(rv, tuple) and len(rv) > 1 and rv[0] in ("call", "vec", "tryok") and mentions(backend_value, lambda x, rv=rv: x == rv) for rv in e[7])
                            rep.oblige(ok)
                            if not ok:
                                rep.add("ARG", name, "%s: the bytes handed to deserialize_eps are not taken from the backend at its final place inside the MemCase being built (%s)" % (name, label(a)[:120]), b.loc())
                if e[0] == "Loop" and isinstance(e[2], tuple) and len(e[2]) == 1 and isinstance(e[2][0], tuple) and e[2][0] and e[2][0][0] == "Store":
                    # `for byte in &mut bytes[file_len..] { *byte = 0 }` is `bytes[file_len..].fill(0)`: one store of 0 per
                    # element of the iterated slice (the loop runs over the slice itself, so over all of it)
                    st_ = e[2][0]
                    tgt = st_[1]
                    itv = tgt[1] if (isinstance(tgt, tuple) and len(tgt) > 2 and tgt[0] == "elem" and tgt[2] == e[3]) else None
                    if isinstance(itv, tuple) and itv and itv[0] == "index" and isinstance(itv[2], tuple) and itv[2][0] == "adt" and itv[2][1].endswith("::RangeFrom") and st_[-1] == C(0):
                        fills.append((i, itv[1], dict(itv[2][3]).get(0)))
                if e[0] == "R" and len(e) > 3 and e[2] == "B" and read_idx is None:
                    read_idx = i
                    copying = True
                    ln = e[3]
                    # read target: BASE[..file_len] (or the whole buffer)
                    if isinstance(ln, tuple) and ln and ln[0] == "len" and isinstance(ln[1], tuple) and ln[1] and ln[1][0] == "index" \
                            and isinstance(ln[1][2], tuple) and ln[1][2][0] == "adt" and ln[1][2][1].endswith("::RangeTo"):
                        read_base, file_len = ln[1][1], dict(ln[1][2][3]).get(0)
                    elif isinstance(ln, tuple) and ln and ln[0] == "len":
                        read_base, file_len = ln[1], None
                    else:
                        read_base, file_len = None, ln
                if e[0] == "Store" and is_uninit_field(e[1], bi):
                    backend_written = i
                    backend_value = e[-1]
                if e[0] == "AssumeInitUninit" or (e[0] == "Call" and e[2] == "assume_init"):
                    released = True
                if e[0] in ("TryErr", "R", "W") and raw_unowned is not None and "RAW" in want:
                    rep.oblige(False)
                    rep.add("RAW", name, "%s: a fallible step (%s) can return while the raw allocation is not yet owned by any value: the buffer leaks"
                            % (name, label(e[2])[:80] if e[0] == "TryErr" else "stream read/write"), e[1] if e[0] == "TryErr" else e[-1])
                    raw_unowned = None
            if "LEAK" in want and backend_written is not None and p.kind == "ret":
                ok = released
                rep.oblige(ok)
                if not ok:
                    failing = [e for e in evs if e[0] == "TryErr"]
                    rep.add("LEAK", name, "%s: a path returns %s after the backend was written into the MaybeUninit MemCase without assume_init or drop_in_place: the backing memory leaks (failing step: %s)"
                            % (name, out[0], label(failing[-1][2])[:60] if failing else "?"), b.loc())
            if "FILL" in want and read_idx is not None and deser_idx is not None:
                # every path that reads the file into the region and then deserializes zero-fills [file_len..] first
                ok = zeroed_whole
                for (fi, base, start) in fills:
                    if fi > deser_idx:
                        continue
                    if start is None and fi < read_idx:
                        ok = True
                    elif start is not None and start == file_len and (read_base is None or base == read_base):
                        ok = True
                rep.oblige(ok)
                rep.count("fill_paths")
                if not ok:
                    rep.add("FILL", name, "%s: a path reads the file into the region and deserializes from it without zero-filling the tail [file_len..] of the same buffer first (fills seen on this path: %s)"
                            % (name, [label(f[2])[:60] if f[2] is not None else "whole" for f in fills]), b.loc())
        rep.count("loaders_analysed")
    return len(ls)


def rule_capacity(u, rep):
    """Copying loaders: capacity = file_len + pad_align_to(file_len, K), the region has exactly `capacity` bytes."""
    for b in loaders(u):
        name = b.d.get("name")
        if name == "mmap":
            continue
        ip, paths = run_explicit(u, b)
        done = False
        for p in paths:
            if outcome_of(u, p)[0] != "ok" or done:
                continue
            done = True
            caps = []
            for e in p.events:
                if e[0] == "Call" and e[2] in ("from_size_align", "new") and (e[1] in ("core", "mmap_rs")):
                    args = e[6]
                    if args:
                        caps.append((e[2], args))
            ok = False
            for nm, args in caps:
                a = args[0]
                if isinstance(a, tuple) and a and a[0] == "bin" and a[1] == "Add":
                    x, y = a[2], a[3]
                    for fl, pd in ((x, y), (y, x)):
                        if isinstance(pd, tuple) and pd and pd[0] == "pad" and pd[1] == fl and is_c(pd[2]) and pd[2][1] >= 1 and (pd[2][1] & (pd[2][1] - 1)) == 0:
                            ok = True
                            if nm == "from_size_align" and len(args) > 1 and args[1] != pd[2]:
                                ok = False
            if not ok and not caps:
                # no raw allocation: a vector built by vec![E::default(); N] (zeroed, safe) with N = capacity / size_of::<E>()
                E, lay = backend_elem_layout(u)
                vecs = []
                def grab(x):
                    if len(x) > 3 and x[0] == "vec" and isinstance(x[3], tuple) and x[3] and x[3][0] == "repeat":
                        vecs.append(x)
                    return False
                for e in p.events:
                    if e[0] == "Store":
                        mentions(e[-1], grab)
                        mentions(e[1], grab)
                    elif e[0] == "Call":
                        mentions(e[6], grab)
                    elif e[0] == "R":
                        mentions(e[3], grab)
                for v in vecs:
                    N = v[2]
                    if lay is not None and isinstance(N, tuple) and N and N[0] == "bin" and N[1] == "Div" and N[3] == C(lay["size"]):
                        S = N[2]
                        if isinstance(S, tuple) and S and S[0] == "bin" and S[1] == "Add":
                            for fl, pd in ((S[2], S[3]), (S[3], S[2])):
                                if isinstance(pd, tuple) and pd and pd[0] == "pad" and pd[1] == fl and is_c(pd[2]) and pd[2][1] >= 1 and pd[2][1] % lay["size"] == 0 and (pd[2][1] & (pd[2][1] - 1)) == 0:
                                    ok = True
                    caps.append(("vec", (N,)))
            rep.oblige(ok)
            rep.count("capacity_sites")
            if not ok:
                rep.add("CAP", name, "%s: the region is not allocated with file_len + pad_align_to(file_len, K) bytes (K a positive power of two equal to the allocation alignment): %s"
                        % (name, [label(a[1][0])[:100] for a in caps]), b.loc())


def rule_memcase_shape(u, rep):
    si, bi, mc = memcase_field_indices(u)
    if mc is None:
        rep.add("ANCHOR", "MemCase", "cannot locate the MemCase type")
        return
    c, aj = mc
    ok = si is not None and bi is not None and si < bi
    rep.oblige(ok)
    if not ok:
        rep.add("SHAPE", "MemCase:field-order", "MemCase must declare the structure before the backend (fields are dropped in declaration order; the structure borrows from the backend)")
    mid = c.def_id(aj["d"])
    # no Drop impl; Send/Sync bounds; API surface
    for im in u.impls:
        if im.self_ty[0] == "adt" and im.self_ty[1] == mid:
            tn = im.trait or ""
            if tn.endswith("::Drop"):
                rep.add("SHAPE", "MemCase:drop-impl", "MemCase has a Drop impl: drop order of structure and backend is no longer the declaration order", im.loc())
            if tn in ("core::marker::Send", "core::marker::Sync"):
                need = tn
                has = any(("trait" in pj and im.crate.def_id(pj["trait"]) == need) for pj in im.preds)
                rep.oblige(has)
                if not has:
                    rep.add("SHAPE", "MemCase:%s-bound" % need.split("::")[-1], "`unsafe impl %s for MemCase<S>` does not require S: %s" % (need.split("::")[-1], need.split("::")[-1]), im.loc())
                rep.count("send_sync_impls")
            # methods that give away the structure or the backend
            for nm, it in im.items.items():
                if not it["kind"].startswith("Fn"):
                    continue
                fb = u.body(im.crate.def_id(it["d"]))
                if fb is None or fb.inputs is None:
                    continue
                ins = [fb.crate.ty(x) for x in fb.inputs]
                outt = fb.crate.ty(fb.output)
                takes_self = bool(ins) and facts.strip_refs(ins[0]) == im.self_ty
                if not takes_self:
                    continue
                by_value = ins[0] == im.self_ty
                mut_ref = ins[0][0] == "ref" and ins[0][1]
                bad = None
                if by_value and mentions(outt, lambda x: x == ("param", "S", 0) or (x and x[0] == "adt" and x[1].endswith("::MemBackend"))):
                    bad = "takes the case by value and returns its structure or backend"
                if mut_ref and mentions(outt, lambda x: x and x[0] == "ref" and x[1]):
                    bad = "hands out a mutable reference into the case"
                rep.oblige(bad is None)
                rep.count("memcase_methods")
                if bad:
                    rep.add("SHAPE", "MemCase:api:%s" % nm, "MemCase::%s %s: the structure could then outlive or be separated from its backing memory" % (nm, bad), fb.loc())
    # backend variants own their memory through a pointer
    for aid, (c2, aj2) in u.adts.items():
        if aid.endswith("::MemBackend"):
            for v in aj2["variants"]:
                for f in v["fields"]:
                    t = c2.ty(f["ty"])
                    ok = t[0] == "adt" and (t[1] in ("alloc::boxed::Box",) or t[1].startswith("mmap_rs::"))
                    rep.oblige(ok)
                    if not ok:
                        rep.add("SHAPE", "MemBackend:%s" % v["name"], "MemBackend::%s holds `%s` inline: moving the case would move the bytes the structure points into" % (v["name"], ty_str(t)))
    # the heap region is aligned to MemoryAlignment = 64
    for aid, (c3, aj3) in u.aliases.items():
        if aid.endswith("::MemoryAlignment"):
            l = aj3.get("layout")
            ok = l is not None and l["align"] >= 64
            rep.oblige(ok)
            if not ok:
                rep.add("SHAPE", "MemoryAlignment", "MemoryAlignment has alignment %s, the loaders promise 64" % (l and l["align"]))


def rule_flags(u, rep):
    """mmap_flags: each `contains(Self::X)` arm ORs in MmapFlags::X; all flags are covered."""
    found = False
    for b in u.bodies.values():
        if b.d.get("name") != "mmap_flags" or b.d.get("krate") != "epserde" or b.thir is None:
            continue
        found = True
        pairs = []
        table = []

        def walk(e):
            if isinstance(e, dict):
                if e.get("k") == "Tuple" and len(e.get("fields", e.get("es", []))) == 2:
                    # table form: `for (ours, theirs) in [(Self::X, MmapFlags::X), ..] { if self.contains(ours) { flags |= theirs } }`
                    fs = e.get("fields", e.get("es", []))
                    l_, r_ = [], []
                    collect_consts(b.crate, fs[0], l_)
                    collect_consts(b.crate, fs[1], r_)
                    if len(l_) == 1 and len(r_) == 1:
                        table.append((l_[0], r_[0]))
                if e.get("k") == "If":
                    cond = e["cond"]
                    consts = []
                    collect_consts(b.crate, cond, consts)
                    sets = []
                    collect_consts(b.crate, e["then"], sets)
                    if consts and sets:
                        pairs.append((consts[0], sets[0]))
                for v in e.values():
                    walk(v)
            elif isinstance(e, list):
                for v in e:
                    walk(v)
        walk(b.thir["root"])
        if table and not pairs:
            # the table is only as good as the loop that consumes it: one `contains(<first>)` test guarding one `|= <second>`
            acc = []
            rules_err.calls_in(b.crate, b.thir["root"], acc)
            if any(dj.get("name") == "contains" for dj, _r, _e in acc) and any(dj.get("name") in ("bitor_assign", "insert", "bitor") for dj, _r, _e in acc):
                pairs = table
        names = set()
        for (a, s_) in pairs:
            ok = a.split("::")[-1] == s_.split("::")[-1]
            names.add(a.split("::")[-1])
            rep.oblige(ok)
            if not ok:
                rep.add("FLAGS", a.split("::")[-1], "mmap_flags maps %s to %s" % (a, s_), b.loc())
        # all constants of Flags
        want = set()
        for bb in u.bodies.values():
            if bb.kind.startswith("AssocConst") and bb.d.get("krate") == "epserde" and "mem_case" in bb.id and bb.d.get("name", "").isupper():
                im = u.impl_of_item(bb.id)
                if im is not None and im.trait is None and ty_str(im.self_ty) == "Flags":
                    want.add(bb.d["name"])
        missing = want - names
        rep.oblige(not missing)
        rep.count("flags_mapped", len(pairs))
        if missing:
            rep.add("FLAGS", "missing:" + ",".join(sorted(missing)), "mmap_flags does not translate %s" % sorted(missing), b.loc())
    return found


def collect_consts(crate, e, acc):
    if isinstance(e, dict):
        if e.get("k") == "NamedConst":
            acc.append(crate.def_name(e["d"]))
        if e.get("k") == "Call" and not e.get("args") and "d" in e.get("f", {}):
            # bitflags constants may be associated consts or const fns
            pass
        for v in e.values():
            collect_consts(crate, v, acc)
    elif isinstance(e, list):
        for v in e:
            collect_consts(crate, v, acc)


def rule_store(u, rep):
    """Serialize::store: create-and-truncate the file, buffered serialize with the result propagated."""
    for b in u.bodies.values():
        if b.d.get("name") != "store" or b.d.get("krate") != "epserde" or b.thir is None or b.d.get("parent_kind") != "Trait":
            continue
        ip, paths = run_explicit(u, b, [("self",), ("param", "path")])
        oks = [p for p in paths if outcome_of(u, p)[0] == "ok"]
        rep.oblige(len(oks) == 1)
        for p in oks:
            calls = [(e[2], e[5], e[6]) for e in p.events if e[0] == "Call"]
            names = [c[0] for c in calls]
            created = any(c[0] == "create" and "File" in (c[1] or "") for c in calls)
            trunc = any(c[0] == "truncate" and c[2] and c[2][-1] == C(1) for c in calls) and any(c[0] == "create" and c[2] and c[2][-1] == C(1) for c in calls) and any(c[0] == "write" and c[2] and c[2][-1] == C(1) for c in calls)
            ok = created or trunc
            rep.oblige(ok)
            if not ok:
                rep.add("STORE", "truncate", "store does not open the destination with create+truncate (File::create or OpenOptions .write(true).create(true).truncate(true)): stale bytes of a longer previous file would remain (calls: %s)" % names, b.loc())
            ser = [c for c in calls if c[0] == "serialize"]
            ok = len(ser) == 1 and mentions(ser[0][2], lambda x: x and x[0] == "call" and x[1] in ("new", "with_capacity") and "bufwriter" in str(x[3]).lower())
            ok = ok and mentions(ser[0][2], lambda x: x == ("self",))
            rep.oblige(ok)
            if not ok:
                rep.add("STORE", "serialize", "store does not serialize self exactly once into a buffered writer over the created file", b.loc())
            # nothing but that serialize call puts bytes into the file (bytes no reader consumes survive truncation unnoticed)
            extra = [e for e in p.events if (e[0] == "W" and e[2] in ("B", "Z", "F", "A")) or (e[0] == "Call" and e[1] == "std" and e[2] in ("write", "write_all", "write_fmt", "write_vectored", "set_len", "seek")
                                                                                       # OpenOptions::write(bool) is a setter of the builder, not a write to the file
                                                                                       and "OpenOptions" not in str(e[5] or ""))]
            rep.oblige(not extra)
            if extra:
                rep.add("STORE", "extra-bytes", "store writes to the file outside the single serialize call (%s): the file is no longer exactly the serialized stream" % (extra[0][2] if extra[0][0] == "Call" else "stream write"), extra[0][-1] if extra[0][0] == "W" else extra[0][4])
        # errors of serialize propagate
        errs = [p for p in paths if outcome_of(u, p)[0] == "err"]
        is_ser = lambda x: x and x[0] == "call" and x[1] == "serialize"
        ok = any(any(e[0] == "TryErr" and mentions(e[2], is_ser) for e in p.events) for p in errs)
        # ... or through an explicit `Err(e) => Err(e)` arm over the result of serialize
        ok = ok or any(any(c[0] == "variant" and c[2] == RESULT and c[3] == 1 and mentions(c[1], is_ser) for c in p.conds) and mentions(p.value, is_ser) for p in errs)
        # ... or because the Result of serialize, at most mapped on its Ok side, is what store returns
        def passes_on(v):
            while isinstance(v, tuple) and v and v[0] == "call" and v[1] in ("map", "and_then", "map_err") and v[2]:
                v = v[2][0]
            return isinstance(v, tuple) and bool(v) and is_ser(v)
        ok = ok or any(p.kind == "ret" and passes_on(p.value) for p in paths)
        rep.oblige(ok)
        if not ok:
            rep.add("STORE", "propagate", "store does not propagate a failure of serialize", b.loc())
        rep.count("store_checked")


def rule_single_pass(u, rep, rule="SINGLE-PASS"):
    """Every entry point of the Serialize trait (serialize, serialize_with_schema, serialize_on_field_write, store)
    traverses self exactly once on every successful path: one call of another entry point with self, or one write
    of self to the backend. A value whose serialization is not repeatable (an iterator wrapper is drained by its
    first traversal) is otherwise written from an exhausted state by the second pass."""
    n = 0
    for b in u.bodies.values():
        if b.d.get("krate") != "epserde" or b.thir is None or b.kind not in ("Fn", "AssocFn"):
            continue
        f = b.crate.files[b.sp[0]] if b.sp else ""
        if "ser/mod.rs" not in f or b.d.get("name") not in ("store", "serialize", "serialize_with_schema", "serialize_on_field_write"):
            continue
        if not any(p.get("self") for p in b.thir["params"]):
            continue
        try:
            ip, paths = run_explicit(u, b, [("self",)] + [None] * (len(b.thir["params"]) - 1))
        except (interp.Unsupported, RecursionError):
            continue
        for p in paths:
            if outcome_of(u, p)[0] != "ok":
                continue
            n += 1
            trav = 0
            for e in p.events:
                if e[0] == "Call" and e[1] == "epserde" and e[2] in ("store", "serialize", "serialize_with_schema", "serialize_on_field_write", "_serialize_inner") and e[6] and e[6][0] == ("self",):
                    trav += 1
                if e[0] == "W" and e[2] == "F" and len(e) > 4 and e[4] == ("self",):
                    trav += 1
            ok = trav == 1
            rep.oblige(ok)
            if not ok:
                rep.add(rule, short_name(b), "`%s` traverses self %d times on a successful path: a value whose serialization is not repeatable (SerIter drains its iterator) is written from an exhausted state, and its stream is no longer that of the vector" % (b.n, trav), b.loc())
                break
    rep.count("serialize_entry_paths", n)
    return n


def short_name(b):
    return (b.n or "").split("::")[-1]


# ---------------------------------------------------------------------- C13
def rule_err_to_ok(u, rep, scope_files, crate="epserde", errs=None, exclude_fn=None):
    """No path on which a callee's Err is observed (match / if let / is_err) returns Ok.
    errs: only functions whose own error type is one of these (serialization vs deserialization side)."""
    n = 0
    for b in u.bodies.values():
        if b.thir is None or b.d.get("krate") != crate or b.kind not in ("Fn", "AssocFn") or not rules_err.in_scope(b, scope_files):
            continue
        if b.output is None or (exclude_fn and exclude_fn(b)):
            continue
        ot = b.crate.ty(b.output)
        if not (ot[0] == "adt" and ot[1] == RESULT):
            continue
        if errs is not None and not (len(ot[2]) >= 2 and isinstance(ot[2][1], tuple) and ot[2][1][0] == "adt" and ot[2][1][1] in errs):
            continue
        try:
            hk = LoaderHooks()
            hk.opaque_results = True
            ip = interp.Interp(u, hk)
            paths = ip.run(b, None)
        except (interp.Unsupported, RecursionError):
            continue
        n += 1
        for p in paths:
            if outcome_of(u, p)[0] != "ok":
                continue
            for c in p.conds:
                bad = None
                if c[0] == "variant" and c[2] == RESULT and c[3] == 1 and isinstance(c[1], tuple) and c[1] and c[1][0] in ("call", "tryok"):
                    bad = "the Err of %s is matched" % label(c[1])[:60]
                if c[0] == "else" and isinstance(c[1], tuple) and c[1] and c[1][0] in ("call", "tryok") and isinstance(c[2], tuple) \
                        and any(isinstance(n_, tuple) and n_ and n_[0] == "variant" and n_[2] == RESULT and n_[3] == 0 for n_ in c[2]) \
                        and not any(isinstance(n_, tuple) and n_ and n_[0] == "variant" and n_[2] == RESULT and n_[3] == 1 for n_ in c[2]):
                    # ... unless the same value is later established to be Ok (`let v = r?` after the test)
                    if not any(c2[0] == "variant" and c2[1] == c[1] and c2[2] == RESULT and c2[3] == 0 for c2 in p.conds) \
                            and not any(ev[0] == "TryEdge" and ev[2] == c[1] for ev in p.events):
                        bad = "a catch-all arm takes the Err of %s together with the Ok values it does not match" % label(c[1])[:60]
                if c[0] in ("true", "false"):
                    v = c[1]
                    pol = c[0] == "true"
                    if isinstance(v, tuple) and v and v[0] == "call" and v[1] in ("is_err", "is_ok"):
                        if (v[1] == "is_err") == pol:
                            bad = "%s of %s holds" % (v[1] if pol else "!" + v[1], label(v[2][0])[:60])
                if bad:
                    rep.oblige(False)
                    rep.add("ERR-TO-OK", b.n, "`%s` returns Ok on a path where %s: a failure is turned into success" % (b.n, bad), b.loc())
    rep.count("result_functions_path_checked", n)
    return n


def rule_alias_owner(u, rep, scope_files, crate="epserde"):
    """An owner (Vec/Box/String) built with from_raw_parts over memory borrowed from self/a parameter must
    never be dropped: it is wrapped in ManuallyDrop at creation, or forgotten before any fallible step."""
    n = 0
    for b in u.bodies.values():
        if b.thir is None or b.d.get("krate") != crate or not rules_err.in_scope(b, scope_files):
            continue
        acc = []
        rules_err.calls_in(b.crate, b.thir["root"], acc)
        if not any(dj.get("name") in ("from_raw_parts", "from_raw") and dj.get("krate") == "alloc" for dj, _r, _e in acc):
            continue
        params = [("self",) if p.get("self") else (("backend",) if (p.get("pat", {}).get("name") == "backend") else None) for p in b.thir["params"]]
        ip, paths = run_explicit(u, b, params)
        for p in paths:
            owner_idx = None
            wrapped = False
            for i, e in enumerate(p.events):
                if e[0] == "Call" and e[2] in ("from_raw_parts", "from_raw") and e[1] == "alloc":
                    args = e[6]
                    borrowed = any(mentions(a, lambda x: x == ("self",) or (x and x[0] == "param")) for a in args) and not any(mentions(a, lambda x: x and x[0] == "call" and x[1] == "alloc") for a in args)
                    if borrowed:
                        owner_idx = i
                        n += 1
                        # wrapped immediately? the value of the call flows into ManuallyDrop::new: detected on the path value/events
                        wrapped = any(ev[0] == "ManuallyDrop" and mentions(ev[2], lambda x: x and x[0] == "call" and x[1] in ("from_raw_parts", "from_raw")) for ev in p.events[i + 1:i + 3])
                if owner_idx is not None and not wrapped:
                    if e[0] == "Forget":
                        owner_idx = None
                    elif e[0] in ("TryErr", "W", "R") and i > owner_idx:
                        # stream operations are fallible: their error edge leaves the function through `?`
                        rep.oblige(False)
                        rep.add("ALIAS-OWNER", b.n, "`%s` builds an owning container over borrowed memory and can leave through `?` (at %s) before it is forgotten: the borrowed data would be freed" % (b.n, e[-1] if e[0] != "TryErr" else e[1]), b.loc())
                        owner_idx = None
            if owner_idx is not None and not wrapped and p.kind == "ret":
                rep.oblige(False)
                rep.add("ALIAS-OWNER", b.n + ":end", "`%s` returns while an owning container over borrowed memory is still live and droppable" % b.n, b.loc())
            elif owner_idx is not None and wrapped:
                rep.oblige(True)
    rep.count("aliasing_owners", n)
    return n


# ---------------------------------------------------------------------- C14
def flat_events(evs):
    for e in evs:
        if e[0] == "Loop":
            body = e[2]
            if isinstance(body, tuple) and body and body[0] == "alt":
                for (_c, sub) in body[1]:
                    for x in flat_events(sub):
                        yield x
            else:
                for x in flat_events(body):
                    yield x
        else:
            yield e


def copy_bounded(b, T):
    """T is bounded by ZeroCopy or Copy in the where-clauses of b."""
    for pj in b.preds:
        if "trait" not in pj:
            continue
        tid = b.crate.def_id(pj["trait"])
        args = b.crate.gargs(pj["a"])
        if args and args[0] == T and (tid.endswith("::ZeroCopy") or tid == "core::marker::Copy"):
            return True
    return False


def rule_uninit_exposed(u, rep, scope_files, crate="epserde"):
    """Vec::set_len that exposes uninitialised elements before a fallible step is allowed only for element
    types without drop glue (Copy / ZeroCopy bounded or primitive)."""
    n = 0
    for b in u.bodies.values():
        if b.thir is None or b.d.get("krate") != crate or not rules_err.in_scope(b, scope_files) or b.kind not in ("Fn", "AssocFn"):
            continue
        acc = []
        rules_err.calls_in(b.crate, b.thir["root"], acc)
        if not any(dj.get("name") == "set_len" for dj, _r, _e in acc):
            continue
        params = [("self",) if p.get("self") else (("backend",) if (p.get("pat", {}).get("name") == "backend") else None) for p in b.thir["params"]]
        ip, paths = run_explicit(u, b, params)
        seen = set()
        for p in paths:
            for i, e in enumerate(p.events):
                if e[0] != "SetLen":
                    continue
                T = e[1]
                grows = e[2] != C(0)
                if not grows:
                    continue
                n += 1
                safe = T is not None and (T[0] == "prim" or copy_bounded(b, T))
                later_fallible = any(x[0] in ("TryErr", "TryEdge", "R") for x in flat_events(p.events[i + 1:]))
                ok = safe or not later_fallible
                rep.oblige(ok)
                if not ok and (b.n, "setlen") not in seen:
                    seen.add((b.n, "setlen"))
                    rep.add("UNINIT", b.n, "`%s` calls set_len on a Vec<%s> before its elements are initialised and can then fail: the elements, which may need dropping, would be dropped uninitialised" % (b.n, ty_str(T) if T else "?"), e[3])
    rep.count("set_len_sites", n)
    return n


def rule_maplen(u, rep):
    """Deserialize::mmap maps the file from offset 0 for exactly its length (metadata().len(), casts aside): a longer
    mapping is zero-extended by the kernel up to the page end, so a truncated file would deserialize; a shorter one
    or a non-zero offset does not present the file's bytes."""
    def strip(v):
        while isinstance(v, tuple) and v and v[0] == "cast":
            v = v[1]
        return v
    n = 0
    for b in loaders(u):
        if b.d.get("name") != "mmap":
            continue
        ip, paths = run_explicit(u, b)
        seen = set()
        for p in paths:
            for e in p.events:
                if e[0] != "Call" or e[1] != "mmap_rs":
                    continue
                if e[2] == "new" and ("new", e[4]) not in seen:
                    seen.add(("new", e[4]))
                    a = strip(e[6][0]) if e[6] else None
                    ok = isinstance(a, tuple) and a and a[0] == "call" and a[1] == "len" and len(a[2]) == 1 and mentions(a[2][0], lambda x: len(x) > 1 and x[0] == "call" and x[1] == "metadata") \
                        and not mentions(a[2][0], lambda x: len(x) > 0 and x[0] in ("bin", "pad"))
                    rep.oblige(ok)
                    n += 1
                    if not ok:
                        rep.add("MAPLEN", "mmap:len", "the mmap loader maps `%s` bytes rather than exactly the file length" % label(e[6][0])[:120] if e[6] else "?", e[4])
                if e[2] == "with_file" and ("with_file", e[4]) not in seen:
                    seen.add(("with_file", e[4]))
                    off = e[6][2] if len(e[6]) > 2 else None
                    ok = off == C(0)
                    rep.oblige(ok)
                    n += 1
                    if not ok:
                        rep.add("MAPLEN", "mmap:offset", "the mmap loader maps the file from offset `%s` rather than 0" % label(off)[:80], e[4])
    rep.count("mmap_len_sites", n)
    return n


def backend_elem_layout(u):
    """(E, layout) of the element type of MemBackend::Memory(Box<[E]>)"""
    E = None
    for aid, (c2, aj2) in u.adts.items():
        if aid.endswith("::MemBackend"):
            for v in aj2["variants"]:
                if v["name"] == "Memory" and v["fields"]:
                    t = c2.ty(v["fields"][0]["ty"])
                    if t[0] == "adt" and t[1] == "alloc::boxed::Box" and t[2] and t[2][0][0] == "slice":
                        E = t[2][0][1]
    lay = None
    for aid, (c3, aj3) in u.aliases.items():
        if aid.endswith("::MemoryAlignment"):
            l = aj3.get("layout")
            if l is not None and E is not None and c3.raw_tys[l["norm"]]["s"].split("::")[-1] == ty_str(E).split("::")[-1]:
                lay = l
    return E, lay


def rule_alloc_layout(u, rep):
    """load_mem: the raw allocation is handed to Vec<E>::from_raw_parts (E = element type of MemBackend::Memory);
    Vec/Box release it with Layout::array::<E>(cap), so the allocation must be made with exactly that layout:
    align == align_of::<E>(), size == cap * size_of::<E>(), len <= cap."""
    E, lay = backend_elem_layout(u)
    if E is None or lay is None:
        rep.add("ANCHOR", "MemBackend::Memory", "cannot determine the element type of the heap backend and its layout")
        return 0
    esize, ealign = lay["size"], lay["align"]
    n = 0
    for b in loaders(u):
        if b.d.get("name") != "load_mem":
            continue
        ip, paths = run_explicit(u, b)
        seen = set()
        for p in paths:
            for e in p.events:
                if e[0] != "Call" or e[2] != "from_raw_parts" or e[1] != "alloc" or e[4] in seen:
                    continue
                seen.add(e[4])
                args = e[6]
                lays = []
                def grab(x):
                    if len(x) > 2 and x[0] == "call" and x[1] == "alloc" and x[2]:
                        inner = x[2][0]
                        if isinstance(inner, tuple) and inner and inner[0] == "tryok":
                            inner = inner[1]
                        if isinstance(inner, tuple) and len(inner) > 2 and inner[0] == "call" and inner[1] == "from_size_align":
                            lays.append(inner[2])
                    return False
                mentions(args[0], grab)
                n += 1
                if not lays or len(args) != 3:
                    rep.oblige(False)
                    rep.add("ALLOC-LAYOUT", "load_mem:shape", "load_mem: the pointer given to Vec::from_raw_parts does not come from alloc(Layout::from_size_align(size, align)) (unknown allocation shape)", e[4])
                    continue
                S, A = lays[0][0], lays[0][1]
                ln, cap = args[1], args[2]
                ok_align = A == C(ealign)
                ok_cap = cap == ("bin", "Div", S, C(esize)) or (esize == 1 and cap == S)
                ok_len = ln == cap
                # the division is exact: S = x + pad(x, K), K a multiple of size_of::<E>()
                ok_exact = isinstance(S, tuple) and S[0] == "bin" and S[1] == "Add" and any(
                    isinstance(q, tuple) and q and q[0] == "pad" and q[1] == o and is_c(q[2]) and q[2][1] % esize == 0 for q, o in ((S[2], S[3]), (S[3], S[2])))
                for ok, key, msg in ((ok_align, "align", "is made with alignment `%s` but Vec<%s>/Box<[%s]> releases it with alignment %d" % (label(A)[:60], ty_str(E), ty_str(E), ealign)),
                                     (ok_cap and ok_exact, "size", "has `%s` bytes but the vector releases capacity `%s` x %d bytes" % (label(S)[:100], label(cap)[:100], esize)),
                                     (ok_len, "len", "is %s elements long but the vector claims %s initialised elements" % (label(cap)[:80], label(ln)[:80]))):
                    rep.oblige(ok)
                    if not ok:
                        rep.add("ALLOC-LAYOUT", "load_mem:" + key, "load_mem: the heap region " + msg + ": it is not released as it was allocated", e[4])
    if n == 0:
        # no raw allocation handed to from_raw_parts: nothing to match (the vector is built and released by safe code)
        for b in loaders(u):
            if b.d.get("name") != "load_mem":
                continue
            acc = []
            from . import rules_err
            rules_err.calls_in(b.crate, b.thir["root"], acc)
            names = {dj.get("name") for dj, _r, _e in acc}
            if not (names & {"alloc", "alloc_zeroed", "from_raw_parts", "from_raw", "realloc"}):
                n += 1
                rep.oblige(True)
                rep.count("alloc_layout_safe_construction")
    rep.count("alloc_layout_sites", n)
    return n


def rule_partial_leak(u, rep, scope_files, crate="epserde", rule="LEAK-PARTIAL"):
    """A loop that moves freshly built values into uninitialised storage (ptr::write / MaybeUninit::write) and can
    leave early (`?`, return) inside the same loop leaks the values already written — the storage is MaybeUninit or
    spare capacity and drops nothing — unless the values need no drop (primitive, Copy/ZeroCopy-bounded parameter),
    the container's length is maintained inside the loop, or the function drops the written prefix itself
    (drop_in_place)."""
    n = 0
    for b in u.bodies.values():
        if b.thir is None or b.d.get("krate") != crate or not rules_err.in_scope(b, scope_files) or b.kind not in ("Fn", "AssocFn"):
            continue
        loops = []

        def find_loops(e):
            if isinstance(e, dict):
                if e.get("k") == "Loop":
                    loops.append(e)
                for v in e.values():
                    find_loops(v)
            elif isinstance(e, list):
                for v in e:
                    find_loops(v)
        find_loops(b.thir["root"])
        whole = []
        rules_err.calls_in(b.crate, b.thir["root"], whole)
        # closure-driven loops: the closure handed to try_for_each / for_each / map is the loop body
        for dj, _r, e in whole:
            if dj.get("krate") == "core" and dj.get("name") in ("try_for_each", "for_each", "map", "try_fold", "fold"):
                for a in e["args"][1:]:
                    x = a
                    while x.get("k") in ("Use", "NeverToAny") and "e" in x:
                        x = x["e"]
                    if x.get("k") == "Closure":
                        cb = u.bodies.get(b.crate.def_id(x["d"]))
                        if cb is not None and cb.thir is not None:
                            loops.append({"k": "ClosureLoop", "body": cb.thir["root"], "sp": e.get("sp"), "closure": True})
        if not loops:
            continue
        cleans_up = any(dj.get("name") in ("drop_in_place",) for dj, _r, _e in whole)
        if not cleans_up:
            # ... or inside a closure of this function (`(0..i).for_each(|j| drop_in_place(p.add(j)))`)
            clos = []

            def find_closures(e):
                if isinstance(e, dict):
                    if e.get("k") == "Closure" and "d" in e:
                        clos.append(b.crate.def_id(e["d"]))
                    for v in e.values():
                        find_closures(v)
                elif isinstance(e, list):
                    for v in e:
                        find_closures(v)
            find_closures(b.thir["root"])
            for cid in clos:
                cb_ = u.bodies.get(cid)
                if cb_ is not None and cb_.thir is not None:
                    inner_c = []
                    rules_err.calls_in(cb_.crate, cb_.thir["root"], inner_c)
                    if any(d2.get("name") == "drop_in_place" for d2, _r2, _e2 in inner_c):
                        cleans_up = True
        if not cleans_up:
            # ... or through a helper of the crate that does (one or two levels down)
            def drops_inside(did, depth=0):
                hb = u.bodies.get(did)
                if hb is None or hb.thir is None or depth > 2:
                    return False
                inner = []
                rules_err.calls_in(hb.crate, hb.thir["root"], inner)
                return any(d2.get("name") == "drop_in_place" or (d2.get("krate") == crate and drops_inside(d2.get("id"), depth + 1)) for d2, _r2, _e2 in inner)
            cleans_up = any(dj.get("krate") == crate and drops_inside((rj or dj).get("id")) for dj, rj, _e in whole)
        if not cleans_up:
            # ... or hands the prefix to a drop guard
            built = []
            rules_err.adts_built_in(b.crate, b.thir["root"], built)
            gts = cleanup_guard_types(u, crate)
            cleans_up = any(aid in gts for (aid, _v, _e) in built)
        for L in loops:
            acc = []
            rules_err.calls_in(b.crate, L, acc)
            writes = []
            for dj, rj, e in acc:
                nm = dj.get("name")
                pretty = dj.get("n") or ""
                if nm == "write" and dj.get("krate") == "core" and ("ptr" in pretty or "MaybeUninit" in pretty or "maybe_uninit" in pretty) and len(e["args"]) == 2:
                    vt = b.crate.ty(e["args"][1]["ty"])
                    nodrop = vt[0] in ("prim", "never") or (vt[0] == "param" and copy_bounded(b, vt)) or (vt[0] == "ref")
                    if not nodrop:
                        writes.append((e, vt))
            if not writes:
                continue
            n += 1
            exits = []

            def find_exits(e):
                if isinstance(e, dict):
                    if e.get("k") == "Return" or (e.get("k") == "Match" and str(e.get("src", "")).startswith("TryDesugar")):
                        exits.append(e)
                    for v in e.values():
                        find_exits(v)
                elif isinstance(e, list):
                    for v in e:
                        find_exits(v)
            find_exits(L)
            if L.get("closure") and not exits:
                # a closure body leaves early by returning Err: any `?` inside it was found above; a closure whose
                # value is a Result is an exit as well
                exits = [L]
            # the count of written items: `count = i` right after `write(p.add(i), v)` records the index of the last
            # item, not how many were written; a cleanup that drops `count` items then misses one
            idx_names = set()
            for (e_w, _vt) in writes:
                a0 = e_w["args"][0]
                stack = [a0]
                while stack:
                    y = stack.pop()
                    if isinstance(y, dict):
                        if y.get("k") == "Call" and "d" in y.get("f", {}) and b.crate.defj(y["f"]["d"]).get("name") in ("add", "offset") and len(y["args"]) == 2:
                            z = y["args"][1]
                            while z.get("k") in ("Use", "NeverToAny", "Cast") and "e" in z:
                                z = z["e"]
                            if z.get("k") in ("Var", "Upvar"):
                                idx_names.add(z.get("name"))
                        stack.extend(v for v in y.values() if isinstance(v, (dict, list)))
                    elif isinstance(y, list):
                        stack.extend(y)
            bad_count = None
            stack = [L]
            while stack and idx_names:
                y = stack.pop()
                if isinstance(y, dict):
                    if y.get("k") == "Assign":
                        r_ = y["r"]
                        while r_.get("k") in ("Use", "NeverToAny", "Cast") and "e" in r_:
                            r_ = r_["e"]
                        l_ = y["l"]
                        while l_.get("k") in ("Use", "Deref") and "e" in l_:
                            l_ = l_["e"]
                        wsp = min((tuple(e_w["sp"][:3]) for (e_w, _vt) in writes if e_w.get("sp")), default=None)
                        # `count = i` *before* the write of item i is the number written so far; after it, one short
                        after = wsp is None or not y.get("sp") or tuple(y["sp"][:3]) > wsp
                        if r_.get("k") in ("Var", "Upvar") and r_.get("name") in idx_names and l_.get("k") in ("Var", "Upvar") and after:
                            bad_count = (l_.get("name"), r_.get("name"), y.get("sp"))
                    stack.extend(v for v in y.values() if isinstance(v, (dict, list)))
                elif isinstance(y, list):
                    stack.extend(y)
            if bad_count is not None and cleans_up:
                rep.oblige(False)
                rep.add(rule, b.n + ":count", "`%s` records the number of items written as `%s = %s`, the index of the last one, and drops that many on failure: the last item written is leaked" % (b.n, bad_count[0], bad_count[1]), b.crate.span(bad_count[2]) if bad_count[2] else b.loc())
            len_in_loop = any(dj.get("name") in ("set_len", "push") for dj, _r, _e in acc)
            # a set_len before the loop: the container already claims the elements (exposing them uninitialised is
            # UNINIT's business, C14), so the written prefix is dropped with it
            lsp = L.get("sp")
            for dj, _r, e2 in whole:
                if dj.get("name") == "set_len" and lsp and e2.get("sp") and (e2["sp"][0], e2["sp"][1], e2["sp"][2]) < (lsp[0], lsp[1], lsp[2]):
                    len_in_loop = True
            ok = not exits or cleans_up or len_in_loop
            rep.oblige(ok)
            if not ok:
                rep.add(rule, b.n, "`%s` writes values of type `%s` into uninitialised storage in a loop that can leave early (`?`/return at %s): the values already written are never dropped (the storage is MaybeUninit / spare capacity), so a failed read leaks what they own"
                        % (b.n, ty_str(writes[0][1]), b.crate.span(exits[0]["sp"])), b.crate.span(writes[0][0]["sp"]))
    rep.count("uninit_fill_loops", n)
    return n


def cleanup_guard_types(u, crate="epserde"):
    """ADTs of the crate whose Drop impl releases memory or items by hand (drop guards)."""
    guards_ = set()
    for im in u.impls:
        if im.trait and im.trait.endswith("::Drop") and im.trait.startswith("core::ops") and im.crate.name == crate and im.self_ty[0] == "adt":
            bid = im.item_id("drop")
            b = u.body(bid) if bid else None
            if b is None or b.thir is None:
                continue
            acc = []
            rules_err.calls_in(b.crate, b.thir["root"], acc)
            if any(dj.get("name") in ("drop_in_place", "from_raw_parts", "from_raw", "dealloc") for dj, _r, _e in acc):
                guards_.add(im.self_ty[1])
    return guards_


def rule_double_cleanup(u, rep, scope_files, crate="epserde", rule="DOUBLE-CLEANUP"):
    """A function that drops a partially built prefix by hand (drop_in_place) must not also hold a guard value whose
    own Drop impl releases the same kind of prefix: on the failing path both run and the items are dropped twice.
    (Either mechanism alone is fine.)"""
    guards_ = cleanup_guard_types(u, crate)
    n = 0
    for b in u.bodies.values():
        if b.thir is None or b.d.get("krate") != crate or not rules_err.in_scope(b, scope_files) or b.kind not in ("Fn", "AssocFn"):
            continue
        acc = []
        rules_err.calls_in(b.crate, b.thir["root"], acc)
        manual = [e for dj, _r, e in acc if dj.get("name") == "drop_in_place"]
        if not manual:
            continue
        im = u.impl_of_item(b.id)
        if im is not None and im.trait and im.trait.endswith("::Drop"):
            continue
        n += 1
        built = []
        rules_err.adts_built_in(b.crate, b.thir["root"], built)
        held = [aid for (aid, _v, _e) in built if aid in guards_]
        ok = not held
        rep.oblige(ok)
        if not ok:
            rep.add(rule, b.n, "`%s` drops a written prefix by hand (drop_in_place) and also holds a `%s`, whose Drop impl releases items too: on the failing path both run (double drop)" % (b.n, held[0].split("::")[-1]), b.crate.span(manual[0]["sp"]))
    rep.count("manual_cleanup_functions", n)
    rep.count("cleanup_guard_types", len(guards_))
    return n


def rule_copying_loaders(u, rep, rule="COPY"):
    """load_mem and load_mmap own a private copy: on every successful path the file is read (read_exact on the file)
    into a region the loader allocated itself -- a raw allocation or an anonymous mapping -- and the file is never
    mapped (`with_file` belongs to `mmap` alone). A private file mapping would alias the page cache: the structure
    changes when the file is rewritten and reading it faults after a truncation."""
    n = 0
    for b in loaders(u):
        name = b.d.get("name")
        if name not in ("load_mem", "load_mmap"):
            continue
        ip, paths = run_explicit(u, b)
        oks = [p for p in paths if outcome_of(u, p)[0] == "ok"]
        for p in oks[:8]:
            n += 1
            reads = [e for e in p.events if e[0] == "R" and len(e) > 3 and e[2] == "B"]
            maps_file = [e for e in p.events if e[0] == "Call" and e[2] in ("with_file", "with_file_unchecked", "map_file")]
            ok = bool(reads) and not maps_file
            rep.oblige(ok)
            if not ok:
                why = "maps the file (%s) instead of copying it" % maps_file[0][2] if maps_file else "returns a structure without having read the file into its own region"
                rep.add(rule, name, "%s %s: the backing memory is not a private copy owned by the result" % (name, why), b.loc())
                break
    rep.count("copying_loader_paths", n)
    return n
