"""Debug pretty-printer for exported THIR / MIR (not used by checks)."""
import sys
from . import facts


def pat_s(c, p):
    k = p["k"]
    if k == "Binding":
        s = ("ref " if p.get("byref") else "") + ("mut " if p.get("mut") else "") + p["name"] + "#" + p["var"]
        if "sub" in p:
            s += " @ " + pat_s(c, p["sub"])
        return s
    if k == "Wild":
        return "_"
    if k == "Variant":
        return "%s(%s)" % (p["vname"], ", ".join("%d:%s" % (s["f"], pat_s(c, s["p"])) for s in p["subs"]))
    if k == "Leaf":
        return "{%s}" % ", ".join("%d:%s" % (s["f"], pat_s(c, s["p"])) for s in p["subs"])
    if k == "Deref":
        return "&" + pat_s(c, p["sub"])
    if k == "Constant":
        return "const(%s)" % p.get("v", p.get("s"))
    if k == "Or":
        return " | ".join(pat_s(c, x) for x in p["pats"])
    return k


def callee_s(c, f):
    if "d" in f:
        s = c.def_name(f["d"])
        args = [facts.ty_str(c.garg(a)) for a in f["a"] if "l" not in a]
        if args:
            s += "::<" + ", ".join(args) + ">"
        r = f.get("res")
        if r and not r.get("same"):
            s += " => " + c.def_name(r["d"])
        return s
    return str(f)


def expr_s(c, e, ind=0):
    pad = "  " * ind
    k = e["k"]
    ty = facts.ty_str(c.ty(e["ty"]))
    if k == "Block":
        out = "{\n"
        for st in e["b"]["stmts"]:
            if st["k"] == "Let":
                out += pad + "  let %s = %s;\n" % (pat_s(c, st["pat"]), expr_s(c, st["init"], ind + 1) if "init" in st else "?")
            else:
                out += pad + "  " + expr_s(c, st["e"], ind + 1) + ";\n"
        if "expr" in e["b"]:
            out += pad + "  " + expr_s(c, e["b"]["expr"], ind + 1) + "\n"
        return out + pad + "}" + ("/*unsafe*/" if e["b"].get("unsafe") else "")
    if k == "Call":
        return "%s(%s)" % (callee_s(c, e["f"]), ", ".join(expr_s(c, a, ind) for a in e["args"]))
    if k == "Var" or k == "Upvar":
        return "%s#%s" % (e["name"], e["var"])
    if k == "Borrow":
        return ("&mut " if e["m"] else "&") + expr_s(c, e["e"], ind)
    if k == "RawBorrow":
        return ("&raw mut " if e["m"] else "&raw const ") + expr_s(c, e["e"], ind)
    if k == "Deref":
        return "*" + expr_s(c, e["e"], ind)
    if k == "Field":
        return "%s.%s" % (expr_s(c, e["e"], ind), e.get("fname", e["f"]))
    if k == "Index":
        return "%s[%s]" % (expr_s(c, e["e"], ind), expr_s(c, e["i"], ind))
    if k == "Lit":
        return repr(e.get("v", e.get("str", e.get("bytes", e.get("other"))))) + ":" + ty
    if k == "Match":
        out = "match<%s> %s {\n" % (e["src"].split("(")[0], expr_s(c, e["scrut"], ind + 1))
        for a in e["arms"]:
            out += pad + "  %s%s => %s,\n" % (pat_s(c, a["pat"]), (" if " + expr_s(c, a["guard"], ind + 1)) if "guard" in a else "", expr_s(c, a["body"], ind + 1))
        return out + pad + "}"
    if k == "If":
        s = "if %s %s" % (expr_s(c, e["cond"], ind), expr_s(c, e["then"], ind))
        if "else" in e:
            s += " else " + expr_s(c, e["else"], ind)
        return s
    if k == "Loop":
        return "loop " + expr_s(c, e["body"], ind)
    if k == "LetExpr":
        return "let %s = %s" % (pat_s(c, e["pat"]), expr_s(c, e["e"], ind))
    if k in ("Use", "NeverToAny"):
        return expr_s(c, e["e"], ind)
    if k == "Coerce":
        return "coerce<%s>(%s):%s" % (e["cast"], expr_s(c, e["e"], ind), ty)
    if k == "Cast":
        return "(%s as %s)" % (expr_s(c, e["e"], ind), ty)
    if k == "Binary" or k == "Logical":
        return "(%s %s %s)" % (expr_s(c, e["l"], ind), e["op"], expr_s(c, e["r"], ind))
    if k == "Unary":
        return "%s(%s)" % (e["op"], expr_s(c, e["e"], ind))
    if k == "Assign":
        return "%s = %s" % (expr_s(c, e["l"], ind), expr_s(c, e["r"], ind))
    if k == "AssignOp":
        return "%s %s= %s" % (expr_s(c, e["l"], ind), e["op"], expr_s(c, e["r"], ind))
    if k == "Return":
        return "return " + (expr_s(c, e["e"], ind) if "e" in e else "")
    if k == "Break":
        return "break " + (expr_s(c, e["e"], ind) if "e" in e else "")
    if k == "Continue":
        return "continue"
    if k == "Adt":
        return "%s::%s{%s}" % (c.def_name(e["adt"]), e["vname"], ", ".join("%s: %s" % (f["fname"], expr_s(c, f["e"], ind)) for f in e["fields"]))
    if k == "Tuple":
        return "(%s)" % ", ".join(expr_s(c, x, ind) for x in e["es"])
    if k == "Array":
        return "[%s]:%s" % (", ".join(expr_s(c, x, ind) for x in e["es"]), ty)
    if k == "Repeat":
        return "[%s; %s]:%s" % (expr_s(c, e["e"], ind), e["count"].get("s", e["count"]), ty)
    if k == "NamedConst":
        return "const " + c.def_name(e["d"])
    if k == "ConstParam":
        return "cparam " + e["name"]
    if k == "Zst":
        return "fnitem " + callee_s(c, e["f"])
    if k == "Closure":
        return "closure " + c.def_name(e["d"])
    return "<%s>" % k


def show(u, pattern):
    for b in u.bodies.values():
        if pattern in b.id or pattern in b.n:
            print("=== %s  [%s]  %s" % (b.id, b.n, b.loc()))
            if b.thir:
                print("params:", [pat_s(b.crate, p["pat"]) if "pat" in p else "?" for p in b.thir["params"]])
                print(expr_s(b.crate, b.thir["root"]))


if __name__ == "__main__":
    u = facts.load_universe(sys.argv[1].split(","))
    show(u, sys.argv[2])
