"""Path-sensitive abstract interpreter over exported THIR.

It never executes repository code on concrete inputs: every parameter is a
symbol, every read from the stream is a fresh atom, loops are summarised by a
single symbolic iteration.  The result for one function is the finite set of
*paths* through it: (conditions, events, outcome).  Events are the primitive
actions the rule engines are interested in (stream reads/writes, alignment
points, hash feeds, stores to by-reference state, may-panic sites).

Values (hashable tuples):
  ('backend',)                      the stream handle (also through reborrows)
  ('bdata',) ('bpos',)              fields of SliceWithPos
  ('param', name)                   opaque parameter / ('self',)
  ('field', v, idx, name)           projection of an opaque value
  ('vfield', v, variant, idx)       pattern binding of a variant field
  ('elem', v, loop)                 element of v inside loop
  ('c', n) ('s', str)               integer / string constants  (bools are ('c',0|1))
  ('sizeof', T) ('alignof', T) ('unit', T) ('cparam', N) ('assoc', T, trait_item, name)
  ('len', v)                        length of a slice-like value
  ('bin', op, a, b) ('un', op, a) ('cast', v, T)
  ('atom', k)                       value produced by read event k
  ('bytes', n, content)             byte buffer of n bytes
  ('view', root, elemT, count)      byte view of typed storage (root = mref or value)
  ('peek', n) ('peekelem', k)       unconsumed bytes at the cursor of SliceWithPos
  ('adt', def, variant, fields)     fields = tuple of (idx, value)
  ('tuple', vals)
  ('call', name, args, T)           opaque pure call
  ('mref', frame, var, path)        mutable reference to a local place
  ('closure', def)
  ('unknown', why)
"""
from . import facts
from .facts import ty_str, subst, unify, strip_refs

MAX_DEPTH = 12
MAX_PATHS = 400


class Unsupported(Exception):
    pass


class St:
    """State of one path."""
    __slots__ = ("envs", "events", "conds", "natoms", "nloops", "pending_peek")

    def __init__(self):
        self.envs = {}
        self.events = []
        self.conds = []
        self.natoms = 0
        self.nloops = 0

    def fork(self):
        s = St()
        s.envs = {k: dict(v) for k, v in self.envs.items()}
        s.events = list(self.events)
        s.conds = list(self.conds)
        s.natoms = self.natoms
        s.nloops = self.nloops
        return s


class Frame:
    _uid = 0

    def __init__(self, body, tsub, depth):
        Frame._uid += 1
        self.uid = Frame._uid
        self.body = body
        self.crate = body.crate
        self.tsub = tsub
        self.depth = depth
        self.done = []      # (st, kind, value)   kind in ret|panic
        self.loops = []     # stack of dicts {breaks:[], continues:[]}


class Path:
    __slots__ = ("conds", "events", "kind", "value", "env")

    def __init__(self, conds, events, kind, value):
        self.conds = conds
        self.events = events
        self.kind = kind
        self.value = value


def C(n):
    return ("c", n)


def is_c(v):
    return isinstance(v, tuple) and v and v[0] == "c"


def short(def_id):
    p = def_id.split("::")
    return "::".join(p[-2:]) if len(p) >= 2 else def_id


RECURSIVE_TRAITS = {
    "SerializeInner::_serialize_inner", "DeserializeInner::_deserialize_full_inner",
    "DeserializeInner::_deserialize_eps_inner", "TypeHash::type_hash", "AlignHash::align_hash",
    "MaxSizeOf::max_size_of",
}

IDENTITY_FNS = {
    # std functions that return (a view of) their first argument
    ("alloc", "as_slice"), ("alloc", "as_bytes"), ("core", "as_bytes"), ("core", "deref"),
    ("core", "deref_mut"), ("alloc", "deref"), ("alloc", "deref_mut"), ("core", "as_ref"),
    ("core", "as_mut"), ("alloc", "as_mut_slice"), ("core", "borrow"), ("core", "borrow_mut"),
    ("core", "into"), ("core", "from"), ("core", "clone"), ("alloc", "clone"),
    ("core", "must_use"), ("core", "as_slice"), ("core", "as_mut_slice"), ("core", "get"),
    ("alloc", "into_boxed_slice"), ("alloc", "into_boxed_str"), ("alloc", "as_str"),
    ("core", "assume_init_mut"), ("core", "assume_init_ref"), ("core", "by_ref"),
    # pointer casts that keep the address (`p.cast::<u8>()` is `p as *mut u8`)
    ("core", "cast"), ("core", "cast_mut"), ("core", "cast_const"),
}


class Interp:
    """hooks: object with optional methods
         call(interp, frame, st, e, callee_id, resolved_id, targs, args) -> list[(st,val)] | None
    """

    def __init__(self, universe, hooks=None, inline_recursive=False):
        self.u = universe
        self.hooks = hooks
        self.notes = []
        self.inline_recursive = inline_recursive
        self.fold_pad = False
        self.explicit_try = False

    # ------------------------------------------------------------------ types
    def ty(self, frame, idx):
        t = frame.crate.ty(idx)
        return subst(t, frame.tsub) if frame.tsub else t

    def garg(self, frame, a):
        t = frame.crate.garg(a)
        return subst(t, frame.tsub) if frame.tsub else t

    def gargs(self, frame, arr):
        return tuple(self.garg(frame, a) for a in arr)

    def size_of(self, t):
        l = self.u.layouts.get(t)
        if l is not None:
            return C(l["size"])
        if t[0] == "prim":
            sz = {"u8": 1, "i8": 1, "bool": 1, "u16": 2, "i16": 2, "u32": 4, "i32": 4, "f32": 4,
                  "char": 4, "u64": 8, "i64": 8, "f64": 8, "usize": 8, "isize": 8, "u128": 16,
                  "i128": 16}.get(t[1])
            if sz is not None:
                return C(sz)
        if t[0] == "array":
            inner = self.size_of(t[1])
            n = t[2]
            nv = C(n) if isinstance(n, int) else ("cparam", n[1]) if isinstance(n, tuple) else ("unknown", "len")
            return self.mul(nv, inner)
        if t[0] == "adt" and t[1] == "core::mem::maybe_uninit::MaybeUninit":
            return self.size_of(t[2][0])
        return ("sizeof", t)

    def align_of(self, t):
        l = self.u.layouts.get(t)
        if l is not None:
            return C(l["align"])
        return ("alignof", t)

    # ------------------------------------------------------------------ arithmetic
    def mul(self, a, b):
        if is_c(a) and is_c(b):
            return C(a[1] * b[1])
        if a == C(1):
            return b
        if b == C(1):
            return a
        if a == C(0) or b == C(0):
            return C(0)
        # canonical order
        x, y = sorted([a, b], key=repr)
        return ("bin", "Mul", x, y)

    def binop(self, op, a, b):
        # a named constant keeps its name only while it travels alone: arithmetic on it is arithmetic on its value
        if isinstance(a, tuple) and a and a[0] == "namedc" and isinstance(a[2], int) and (is_c(b) or (isinstance(b, tuple) and b and b[0] == "namedc")):
            a = C(a[2])
        if isinstance(b, tuple) and b and b[0] == "namedc" and isinstance(b[2], int) and is_c(a):
            b = C(b[2])
        if is_c(a) and is_c(b):
            x, y = a[1], b[1]
            try:
                r = {
                    "Add": lambda: x + y, "Sub": lambda: x - y, "Mul": lambda: x * y,
                    "Div": lambda: x // y if y else None, "Rem": lambda: x % y if y else None,
                    "BitAnd": lambda: x & y, "BitOr": lambda: x | y, "BitXor": lambda: x ^ y,
                    "Shl": lambda: x << y, "Shr": lambda: x >> y,
                    "Eq": lambda: int(x == y), "Ne": lambda: int(x != y), "Lt": lambda: int(x < y),
                    "Le": lambda: int(x <= y), "Gt": lambda: int(x > y), "Ge": lambda: int(x >= y),
                }.get(op, lambda: None)()
            except Exception:
                r = None
            if r is not None:
                return C(r)
        if op == "Mul":
            return self.mul(a, b)
        if op == "Add":
            if a == C(0):
                return b
            if b == C(0):
                return a
        if op == "Div":
            # exact monomial division  (n*s)/s
            if b == C(1):
                return a
            if a == b:
                return C(1)
            if isinstance(a, tuple) and a[0] == "bin" and a[1] == "Mul":
                if a[2] == b:
                    return a[3]
                if a[3] == b:
                    return a[2]
        if op in ("Eq", "Le", "Ge") and a == b:
            return C(1)
        if op in ("Ne", "Lt", "Gt") and a == b:
            return C(0)
        return ("bin", op, a, b)

    def length_of(self, v):
        if not isinstance(v, tuple):
            return ("len", v)
        k = v[0]
        if k == "bytes":
            return v[1]
        if k == "peek":
            return v[1]
        if k == "view":
            return self.mul(v[3], self.size_of(v[2]))
        if k == "tview":
            return v[3]
        if k == "vec":
            return v[2]
        if k == "rawslice":
            return v[4]
        if k == "unsized":
            return v[2]
        if k == "uninit" and isinstance(v[1], tuple) and v[1][0] == "array":
            n = v[1][2]
            return C(n) if isinstance(n, int) else ("cparam", n[1])
        if k == "tpeek":
            return self.binop("Div", v[1], self.size_of(v[2]))
        if k == "call" and v[1] in ("identity",):
            return self.length_of(v[2][0])
        if k == "index" and isinstance(v[2], tuple) and v[2] and v[2][0] == "adt" and isinstance(v[2][1], str):
            f = dict(v[2][3])
            if v[2][1].endswith("::RangeTo"):
                return f.get(0)
            if v[2][1].endswith("::Range"):
                lo, hi = f.get(0), f.get(1)
                return hi if lo == C(0) else self.binop("Sub", hi, lo)
            if v[2][1].endswith("::RangeFull"):
                return self.length_of(v[1])
        return ("len", v)

    # ------------------------------------------------------------------ env / places
    def env(self, st, frame):
        return st.envs.setdefault(frame.uid, {})

    def load_ref(self, st, v):
        """Read through an mref (one level)."""
        if isinstance(v, tuple) and v and v[0] == "mref":
            _, fuid, var, path = v
            cur = st.envs.get(fuid, {}).get(var, ("unknown", "unbound " + str(var)))
            for p in path:
                cur = self.project(cur, p)
            return cur
        return v

    def project(self, v, p):
        """p = ('f', idx, name) field projection."""
        v0 = v
        if isinstance(v, tuple) and v:
            if v[0] == "adt":
                for (i, fv) in v[3]:
                    if i == p[1]:
                        return fv
            if v[0] == "tuple":
                if p[1] < len(v[1]):
                    return v[1][p[1]]
            if v[0] == "backend":
                if p[2] == "data":
                    return ("bdata",)
                if p[2] == "pos":
                    return ("bpos",)
            if v[0] == "alignto":
                # (pre, mid, post) of align_to(_mut)::<T,U>(x)
                if p[1] == 1:
                    return v[1]
                return ("alignto_edge", v[1], p[1])
        return ("field", v0, p[1], p[2])

    def store(self, st, frame, place_expr, val):
        """Assign val to the place denoted by THIR expression place_expr."""
        root, path = self.place_of(st, frame, place_expr)
        if root is None:
            return False
        if root[0] == "local":
            _, fuid, var = root
            envd = st.envs.setdefault(fuid, {})
            if not path:
                envd[var] = val
            else:
                envd[var] = self.update(envd.get(var, ("unknown", "unbound")), path, val)
            return True
        # store through an opaque root (param by reference, self, backend)
        st.events.append(("Store", root[1], tuple(path), val))
        return True

    def update(self, cur, path, val):
        if not path:
            return val
        p = path[0]
        if isinstance(cur, tuple) and cur and cur[0] == "adt":
            fs = []
            found = False
            for (i, fv) in cur[3]:
                if i == p[1]:
                    fs.append((i, self.update(fv, path[1:], val)))
                    found = True
                else:
                    fs.append((i, fv))
            if not found:
                fs.append((p[1], self.update(("unknown", "field"), path[1:], val)))
            return ("adt", cur[1], cur[2], tuple(fs))
        if isinstance(cur, tuple) and cur and cur[0] == "tuple":
            vs = list(cur[1])
            if p[1] < len(vs):
                vs[p[1]] = self.update(vs[p[1]], path[1:], val)
                return ("tuple", tuple(vs))
        return ("updated", cur, tuple(path), val)

    def place_of(self, st, frame, e):
        """(root, path) for a place expression; root = ('local', frame uid, var) | ('opaque', value)."""
        k = e["k"]
        if k == "Var":
            envd = self.env(st, frame)
            cur = envd.get(e["var"])
            if isinstance(cur, tuple) and cur and cur[0] == "mref" and False:
                pass
            return ("local", frame.uid, e["var"]), []
        if k == "Upvar":
            return ("local", frame.uid, e["var"]), []
        if k == "Field":
            root, path = self.place_of(st, frame, e["e"])
            if root is None:
                return None, None
            return root, path + [("f", e["f"], e.get("fname", str(e["f"])))]
        if k == "Deref":
            inner = e["e"]
            # deref of a variable holding an mref -> the referenced place
            vals = self.ev(frame, inner, st)
            if len(vals) != 1:
                return None, None
            v = vals[0][1]
            if isinstance(v, tuple) and v and v[0] == "mref":
                return ("local", v[1], v[2]), list(v[3])
            return ("opaque", v), []
        if k in ("Use", "Borrow"):
            return self.place_of(st, frame, e["e"])
        if k == "Index":
            root, path = self.place_of(st, frame, e["e"])
            if root is None:
                return None, None
            return root, path + [("i", 0, "[]")]
        vals = self.ev(frame, e, st)
        if len(vals) == 1:
            return ("opaque", vals[0][1]), []
        return None, None

    # ------------------------------------------------------------------ patterns
    def bind(self, st, frame, pat, val, conds_out=None):
        """Bind pattern variables; returns True if the pattern is irrefutable-or-matched,
        None when it adds a condition (conds_out gets it), False when statically no match."""
        k = pat["k"]
        envd = self.env(st, frame)
        if k == "Binding":
            envd[pat["var"]] = val
            if "sub" in pat:
                return self.bind(st, frame, pat["sub"], val, conds_out)
            return True
        if k in ("Wild", "Missing"):
            return True
        if k == "Deref":
            return self.bind(st, frame, pat["sub"], self.load_ref(st, val), conds_out)
        if k == "Leaf":
            ok = True
            for s in pat["subs"]:
                sub = self.project(val, ("f", s["f"], str(s["f"])))
                r = self.bind(st, frame, s["p"], sub, conds_out)
                if r is False:
                    return False
                if r is None:
                    ok = None
            return ok
        if k == "Variant":
            adt = frame.crate.def_id(pat["adt"])
            vi = pat["variant"]
            val = self.load_ref(st, val)
            if isinstance(val, tuple) and val and val[0] == "adt" and val[1] == adt:
                if val[2] != vi:
                    return False
                ok = True
                for s in pat["subs"]:
                    sub = self.project(val, ("f", s["f"], str(s["f"])))
                    r = self.bind(st, frame, s["p"], sub, conds_out)
                    if r is False:
                        return False
                    if r is None:
                        ok = None
                return ok
            known = [c for c in st.conds if c[0] == "variant" and c[1] == val and c[2] == adt]
            if known:
                # the same value was already matched: a second match on it follows the same variant
                if any(c[3] != vi for c in known):
                    return False
                ok = True
                for s in pat["subs"]:
                    r = self.bind(st, frame, s["p"], ("vfield", val, vi, s["f"]), conds_out)
                    if r is False:
                        return False
                    if r is None:
                        ok = None
                return ok
            if conds_out is not None:
                conds_out.append(("variant", val, adt, vi, pat.get("vname")))
            for s in pat["subs"]:
                self.bind(st, frame, s["p"], ("vfield", val, vi, s["f"]), conds_out)
            return None
        if k == "Constant":
            cv = C(pat["v"]) if "v" in pat else ("s", pat.get("s"))
            named = None
            if "from_const" in pat:
                named = frame.crate.def_id(pat["from_const"])
            if is_c(val) and is_c(cv):
                return val[1] == cv[1]
            if conds_out is not None:
                conds_out.append(("eq", val, cv, named))
            return None
        if k == "Or":
            if conds_out is not None:
                alts = []
                for p in pat["pats"]:
                    sub = []
                    self.bind(st, frame, p, val, sub)
                    alts.append(tuple(sub))
                conds_out.append(("or", tuple(alts)))
            return None
        if k == "Range":
            if conds_out is not None:
                conds_out.append(("range", val, pat.get("s")))
            return None
        if conds_out is not None:
            conds_out.append(("pat", val, k))
        return None

    # ------------------------------------------------------------------ expressions
    def ev(self, frame, e, st):
        """Evaluate expression e on state st; returns list of (st, value) for continuing paths."""
        k = e["k"]
        m = getattr(self, "e_" + k, None)
        if m is None:
            self.notes.append(("unsupported-expr", k, frame.crate.span(e.get("sp"))))
            return [(st, ("unknown", "expr " + k))]
        return m(frame, e, st)

    def ev_seq(self, frame, exprs, st):
        """Evaluate a list of expressions left to right. -> list of (st, [vals])"""
        acc = [(st, [])]
        for x in exprs:
            nxt = []
            for (s, vs) in acc:
                for (s2, v) in self.ev(frame, x, s):
                    nxt.append((s2, vs + [v]))
            acc = nxt
            if len(acc) > MAX_PATHS:
                raise Unsupported("path explosion")
        return acc

    def e_Use(self, frame, e, st):
        return self.ev(frame, e["e"], st)

    e_NeverToAny = e_Use

    def e_Var(self, frame, e, st):
        envd = self.env(st, frame)
        v = envd.get(e["var"])
        if v is None:
            v = ("unknown", "unbound var " + e.get("name", "?"))
        return [(st, v)]

    e_Upvar = e_Var

    def e_Lit(self, frame, e, st):
        if "v" in e:
            v = e["v"]
            if e.get("neg"):
                v = -v
            return [(st, C(v))]
        if "str" in e:
            return [(st, ("s", e["str"]))]
        if "bytes" in e:
            return [(st, ("bytes", C(len(e["bytes"])), ("lit", tuple(e["bytes"]))))]
        return [(st, ("unknown", "lit"))]

    def e_Borrow(self, frame, e, st):
        inner = e["e"]
        if inner["k"] == "Deref":
            # reborrow `&mut *x` / `&*x`: keep references to local places intact
            out = []
            for (s, v) in self.ev(frame, inner["e"], st):
                out.append((s, v))
            return out
        if e.get("m"):
            # mutable borrow of a local place -> mref
            root, path = self._static_place(frame, inner, st)
            if root is not None:
                return [(st, ("mref", root[1], root[2], tuple(path)))]
        return self.ev(frame, inner, st)

    e_RawBorrow = e_Borrow

    def _static_place(self, frame, e, st):
        """Place rooted at a local variable without evaluating calls; else None."""
        k = e["k"]
        if k == "Var" or k == "Upvar":
            cur = self.env(st, frame).get(e["var"])
            # a variable that itself holds an mref (reborrow `&mut *x`) is handled by Deref
            return ("local", frame.uid, e["var"]), []
        if k == "Field":
            root, path = self._static_place(frame, e["e"], st)
            if root is None:
                return None, None
            return root, path + [("f", e["f"], e.get("fname", str(e["f"])))]
        if k == "Deref":
            inner = e["e"]
            if inner["k"] in ("Var", "Upvar"):
                cur = self.env(st, frame).get(inner["var"])
                if isinstance(cur, tuple) and cur and cur[0] == "mref":
                    return ("local", cur[1], cur[2]), list(cur[3])
            if inner["k"] == "Borrow":
                return self._static_place(frame, inner["e"], st)
            return None, None
        if k == "Use":
            return self._static_place(frame, e["e"], st)
        return None, None

    def e_Deref(self, frame, e, st):
        out = []
        for (s, v) in self.ev(frame, e["e"], st):
            out.append((s, self.load_ref(s, v)))
        return out

    def e_Field(self, frame, e, st):
        out = []
        for (s, v) in self.ev(frame, e["e"], st):
            v = self.load_ref(s, v)
            out.append((s, self.project(v, ("f", e["f"], e.get("fname", str(e["f"]))))))
        return out

    def e_Index(self, frame, e, st):
        out = []
        for (s, vs) in self.ev_seq(frame, [e["e"], e["i"]], st):
            base, idx = self.load_ref(s, vs[0]), vs[1]
            if base == ("bdata",):
                s.events.append(("Peek", ("elem", idx), frame.crate.span(e["sp"])))
                out.append((s, ("peekelem", idx)))
            else:
                s.events.append(("MayPanic", "index", frame.crate.span(e["sp"]), (base, idx)))
                out.append((s, ("index", base, idx)))
        return out

    def e_Cast(self, frame, e, st):
        t = self.ty(frame, e["ty"])
        out = []
        for (s, v) in self.ev(frame, e["e"], st):
            out.append((s, self.cast(s, v, t, self.ty(frame, e["e"]["ty"]))))
        return out

    def cast(self, st, v, t, src_t):
        # pointer casts keep the object and remember the original pointee type
        if t[0] == "ptr":
            if isinstance(v, tuple) and v and v[0] == "ptrto":
                return v
            pointee = src_t[2] if src_t[0] in ("ref", "ptr") else src_t
            return ("ptrto", v, pointee)
        if is_c(v):
            return v
        return ("cast", v, t)

    def e_Coerce(self, frame, e, st):
        t = self.ty(frame, e["ty"])
        out = []
        srct = self.ty(frame, e["e"]["ty"])
        for (s, v) in self.ev(frame, e["e"], st):
            if t[0] == "ptr":
                out.append((s, self.cast(s, v, t, srct)))
            elif "Unsize" in e.get("cast", "") and strip_refs(srct)[0] == "array" and isinstance(v, tuple) and v and v[0] in ("self", "param", "field", "vfield", "elem"):
                # array unsized to a slice: remember the static length
                n = strip_refs(srct)[2]
                nv = C(n) if isinstance(n, int) else ("cparam", n[1]) if isinstance(n, tuple) else None
                out.append((s, ("unsized", v, nv) if nv is not None else v))
            else:
                out.append((s, v))
        return out

    def e_Binary(self, frame, e, st):
        out = []
        for (s, vs) in self.ev_seq(frame, [e["l"], e["r"]], st):
            a, b = self.load_ref(s, vs[0]), self.load_ref(s, vs[1])
            if e["op"] in ("Sub", "Add", "Mul") and not (is_c(a) and is_c(b)):
                s.events.append(("MayPanic", "overflow:" + e["op"], frame.crate.span(e["sp"]), (a, b)))
            if e["op"] in ("Div", "Rem") and not is_c(b):
                s.events.append(("MayPanic", "divzero:" + e["op"], frame.crate.span(e["sp"]), (a, b)))
            out.append((s, self.binop(e["op"], a, b)))
        return out

    def e_Logical(self, frame, e, st):
        out = []
        for (s, a) in self.ev(frame, e["l"], st):
            if is_c(a):
                if e["op"] == "And" and a[1] == 0:
                    out.append((s, C(0)))
                    continue
                if e["op"] == "Or" and a[1] == 1:
                    out.append((s, C(1)))
                    continue
                out.extend(self.ev(frame, e["r"], s))
                continue
            for (s2, b) in self.ev(frame, e["r"], s):
                if is_c(b):
                    if e["op"] == "And":
                        out.append((s2, a if b[1] else C(0)))
                    else:
                        out.append((s2, C(1) if b[1] else a))
                else:
                    out.append((s2, ("bin", e["op"], a, b)))
        return out

    def e_Unary(self, frame, e, st):
        out = []
        for (s, v) in self.ev(frame, e["e"], st):
            v = self.load_ref(s, v)
            if e["op"] == "Not" and is_c(v):
                t = self.ty(frame, e["ty"])
                if t == ("prim", "bool"):
                    out.append((s, C(1 - v[1])))
                    continue
            if e["op"] == "Neg" and is_c(v):
                out.append((s, C(-v[1])))
                continue
            if e["op"] == "Not" and isinstance(v, tuple) and v[0] == "un" and v[1] == "Not":
                out.append((s, v[2]))
                continue
            out.append((s, ("un", e["op"], v)))
        return out

    def e_Tuple(self, frame, e, st):
        return [(s, ("tuple", tuple(vs))) for (s, vs) in self.ev_seq(frame, e["es"], st)]

    def e_Array(self, frame, e, st):
        t = self.ty(frame, e["ty"])
        out = []
        for (s, vs) in self.ev_seq(frame, e["es"], st):
            if t[0] == "array" and t[1] == ("prim", "u8"):
                out.append((s, ("bytes", C(len(vs)), ("elems", tuple(vs)))))
            else:
                out.append((s, ("array", tuple(vs))))
        return out

    def e_Repeat(self, frame, e, st):
        t = self.ty(frame, e["ty"])
        out = []
        for (s, v) in self.ev(frame, e["e"], st):
            n = t[2] if t[0] == "array" else None
            nv = C(n) if isinstance(n, int) else ("cparam", n[1]) if isinstance(n, tuple) else ("unknown", "n")
            if t[0] == "array" and t[1] == ("prim", "u8"):
                out.append((s, ("bytes", nv, ("repeat", v))))
            else:
                out.append((s, ("repeat", v, nv)))
        return out

    def e_Adt(self, frame, e, st):
        adt = frame.crate.def_id(e["adt"])
        exprs = [f["e"] for f in e["fields"]]
        out = []
        for (s, vs) in self.ev_seq(frame, exprs, st):
            fs = tuple((f["f"], v) for f, v in zip(e["fields"], vs))
            out.append((s, ("adt", adt, e["variant"], fs)))
        return out

    def e_NamedConst(self, frame, e, st):
        d = frame.crate.def_id(e["d"])
        targs = self.gargs(frame, e["a"])
        dj = frame.crate.defj(e["d"])
        b = self.u.body(d)
        # associated const of a trait on a type: symbolic
        if dj["kind"].startswith("AssocConst"):
            nm = dj.get("name")
            if b is not None and dj.get("parent_kind", "").startswith("Impl"):
                # concrete impl const: evaluate its initializer
                r = self.eval_const_body(b, targs, frame)
                if r is not None:
                    return [(st, r)]
            selft = targs[0] if targs else None
            return [(st, ("assoc", selft, nm))]
        if b is not None:
            if b.value and "v" in b.value:
                pent = self.u.defs.get(d.rsplit("::", 1)[0]) if "::" in d else None
                if dj.get("parent_kind") in ("Fn", "AssocFn", "Closure") or (pent is not None and str(pent[1].get("kind", "")).startswith(("Fn", "AssocFn", "Closure"))):
                    return [(st, C(b.value["v"]))]            # a function-local constant is just a name for its value
                return [(st, ("namedc", d, b.value["v"]))]
            r = self.eval_const_body(b, targs, frame)
            if r is not None:
                if isinstance(r, tuple) and r and r[0] == "tuple":
                    r = ("tuple", tuple(("namedc", "%s.%d" % (d, i), x[1]) if is_c(x) else x for i, x in enumerate(r[1])))
                return [(st, r)]
        return [(st, ("const", d))]

    def eval_const_body(self, b, targs, frame):
        if b.thir is None or frame.depth > MAX_DEPTH:
            return None
        tsub = self.make_tsub(b, targs)
        fr = Frame(b, tsub, frame.depth + 1)
        st = St()
        try:
            res = self.ev(fr, b.thir["root"], st)
        except Unsupported:
            return None
        if len(res) == 1:
            return res[0][1]
        return None

    def e_ConstParam(self, frame, e, st):
        r = frame.tsub.get(e["name"]) if frame.tsub else None
        if r is not None:
            if isinstance(r, tuple) and r[0] == "const":
                r = r[1]
            if isinstance(r, int):
                return [(st, C(r))]
            if isinstance(r, tuple) and r[0] == "cparam":
                return [(st, ("cparam", r[1]))]
        return [(st, ("cparam", e["name"]))]

    def e_Zst(self, frame, e, st):
        f = e["f"]
        if "d" in f:
            return [(st, ("fnitem", frame.crate.def_id(f["d"]), self.gargs(frame, f["a"])))]
        return [(st, ("unknown", "zst"))]

    def e_Closure(self, frame, e, st):
        if not hasattr(self, "closure_tsub"):
            self.closure_tsub = {}
        did = frame.crate.def_id(e["d"])
        self.closure_tsub[(did, frame.uid)] = frame.tsub
        return [(st, ("closure", did, frame.uid))]

    def e_ConstBlock(self, frame, e, st):
        return [(st, ("const", frame.crate.def_id(e["d"])))]

    def e_StaticRef(self, frame, e, st):
        return [(st, ("static", frame.crate.def_id(e["d"])))]

    def e_Other(self, frame, e, st):
        self.notes.append(("other-expr", e.get("dbg", "")[:60], frame.crate.span(e.get("sp"))))
        return [(st, ("unknown", "other"))]

    # ---- statements / blocks
    def e_Block(self, frame, e, st):
        b = e["b"]
        cur = [st]
        for stmt in b["stmts"]:
            nxt = []
            for s in cur:
                if stmt["k"] == "Expr":
                    for (s2, _v) in self.ev(frame, stmt["e"], s):
                        nxt.append(s2)
                else:
                    if "init" in stmt:
                        for (s2, v) in self.ev(frame, stmt["init"], s):
                            conds = []
                            s_else = s2.fork() if "else" in stmt else None
                            r = self.bind(s2, frame, stmt["pat"], self.load_ref(s2, v) if "else" in stmt else v, conds)
                            if "else" in stmt:
                                # `let PAT = init else { diverge }`: the else block runs when the pattern does not match
                                if r is not True:
                                    if conds:
                                        s_else.conds.append(("else", self.load_ref(s_else, v), tuple(conds)))
                                    eb = stmt["else"]
                                    self.ev(frame, eb, s_else) if "k" in eb else self.e_Block(frame, {"b": eb}, s_else)   # diverges
                                if r is False:
                                    continue
                            if r is None and conds:
                                # refutable: record condition
                                s2.conds.extend(conds)
                            nxt.append(s2)
                    else:
                        self.bind(s, frame, stmt["pat"], ("uninit",))
                        nxt.append(s)
            cur = nxt
            if len(cur) > MAX_PATHS:
                raise Unsupported("path explosion")
        out = []
        if "expr" in b:
            for s in cur:
                out.extend(self.ev(frame, b["expr"], s))
        else:
            out = [(s, ("tuple", ())) for s in cur]
        return out

    def e_Assign(self, frame, e, st):
        out = []
        for (s, v) in self.ev(frame, e["r"], st):
            if not self.store(s, frame, e["l"], v):
                self.notes.append(("store-unknown-place", frame.crate.span(e["sp"])))
            out.append((s, ("tuple", ())))
        return out

    def e_AssignOp(self, frame, e, st):
        out = []
        for (s, vs) in self.ev_seq(frame, [e["l"], e["r"]], st):
            old, r = self.load_ref(s, vs[0]), vs[1]
            op = e["op"].replace("Assign", "")
            if op in ("Sub", "Add", "Mul") and not (is_c(old) and is_c(r)):
                s.events.append(("MayPanic", "overflow:" + op, frame.crate.span(e["sp"]), (old, r)))
            nv = self.binop(op, old, r)
            if not self.store(s, frame, e["l"], nv):
                self.notes.append(("store-unknown-place", frame.crate.span(e["sp"])))
            out.append((s, ("tuple", ())))
        return out

    def e_Return(self, frame, e, st):
        if "e" in e:
            for (s, v) in self.ev(frame, e["e"], st):
                frame.done.append((s, "ret", v))
        else:
            frame.done.append((st, "ret", ("tuple", ())))
        return []

    def e_Break(self, frame, e, st):
        if not frame.loops:
            # break out of a labeled block: treated as unsupported control flow
            self.notes.append(("break-outside-loop", frame.crate.span(e["sp"])))
            return []
        if "e" in e:
            for (s, v) in self.ev(frame, e["e"], st):
                frame.loops[-1]["breaks"].append((s, v))
        else:
            frame.loops[-1]["breaks"].append((st, ("tuple", ())))
        return []

    def e_Continue(self, frame, e, st):
        if frame.loops:
            frame.loops[-1]["continues"].append(st)
        return []

    def e_If(self, frame, e, st):
        out = []
        cond_e = e["cond"]
        # `if let` : cond is LetExpr
        if cond_e["k"] == "LetExpr":
            for (s, v) in self.ev(frame, cond_e["e"], st):
                s_else = s.fork()
                conds = []
                r = self.bind(s, frame, cond_e["pat"], self.load_ref(s, v), conds)
                if r is not False:
                    if r is None:
                        s.conds.extend(conds)
                    out.extend(self.ev(frame, e["then"], s))
                if r is not True:
                    if conds:
                        # same form as the catch-all arm of a `match` on the same scrutinee
                        s_else.conds.append(("else", self.load_ref(s_else, v), tuple(conds)))
                    if "else" in e:
                        out.extend(self.ev(frame, e["else"], s_else))
                    else:
                        out.append((s_else, ("tuple", ())))
            return out
        for (s, c) in self.ev(frame, cond_e, st):
            c = self.load_ref(s, c)
            if is_c(c):
                if c[1]:
                    out.extend(self.ev(frame, e["then"], s))
                elif "else" in e:
                    out.extend(self.ev(frame, e["else"], s))
                else:
                    out.append((s, ("tuple", ())))
                continue
            s2 = s.fork()
            s.conds.append(("true", c, frame.crate.span(e["sp"]), len(s.events)))
            out.extend(self.ev(frame, e["then"], s))
            s2.conds.append(("false", c, frame.crate.span(e["sp"]), len(s2.events)))
            if "else" in e:
                out.extend(self.ev(frame, e["else"], s2))
            else:
                out.append((s2, ("tuple", ())))
        return out

    def e_LetExpr(self, frame, e, st):
        # let-expression outside `if` (e.g. in && chains): treat as opaque condition
        out = []
        for (s, v) in self.ev(frame, e["e"], st):
            conds = []
            r = self.bind(s, frame, e["pat"], v, conds)
            if r is True:
                out.append((s, C(1)))
            elif r is False:
                out.append((s, C(0)))
            else:
                out.append((s, ("letcond", tuple(conds))))
        return out

    def e_Match(self, frame, e, st):
        src = e["src"]
        if src.startswith("TryDesugar"):
            return self.try_desugar(frame, e, st)
        if src.startswith("ForLoopDesugar"):
            return self.for_loop(frame, e, st)
        out = []
        for (s0, v) in self.ev(frame, e["scrut"], st):
            v = self.load_ref(s0, v)
            negs = []
            pending = s0
            for arm in e["arms"]:
                if pending is None:
                    break
                s = pending.fork()
                conds = []
                r = self.bind(s, frame, arm["pat"], v, conds)
                if r is False:
                    continue
                if r is True and "guard" not in arm:
                    # catch-all arm
                    if negs:
                        s.conds.append(("else", v, tuple(negs)))
                    out.extend(self.ev(frame, arm["body"], s))
                    pending = None
                    break
                s.conds.extend(conds)
                if "guard" in arm:
                    for (sg, g) in self.ev(frame, arm["guard"], s):
                        if is_c(g):
                            if g[1]:
                                out.extend(self.ev(frame, arm["body"], sg))
                            continue
                        sg.conds.append(("true", g, frame.crate.span(arm["sp"])))
                        out.extend(self.ev(frame, arm["body"], sg))
                    negs.append(("guarded", tuple(conds)))
                    continue
                negs.extend(conds)
                out.extend(self.ev(frame, arm["body"], s))
            if len(out) > MAX_PATHS:
                raise Unsupported("path explosion")
        return out

    def try_desugar(self, frame, e, st):
        """`x?` : unwrap Ok, return Err."""
        scrut = e["scrut"]
        inner = scrut["args"][0] if scrut["k"] == "Call" and scrut["args"] else scrut
        out = []
        for (s, v) in self.ev(frame, inner, st):
            v = self.load_ref(s, v)
            out.extend(self.try_value(frame, s, v, e))
        return out

    def try_value(self, frame, s, v, e):
        if isinstance(v, tuple) and v and v[0] == "inspected":
            inner, fv = v[1], v[2]
            if self.explicit_try:
                for (s2, _x) in self.call_value(frame, s.fork(), e, fv, [("errof", inner)]):
                    s2.events.append(("TryErr", frame.crate.span(e["sp"]), inner))
                    frame.done.append((s2, "ret", ("adt", "core::result::Result", 1, ((0, ("errof", inner)),))))
            s.events.append(("TryEdge", frame.crate.span(e["sp"]), inner))
            return [(s, ("tryok", inner))]
        if isinstance(v, tuple) and v and v[0] == "adt":
            if v[1] == "core::result::Result":
                if v[2] == 0:
                    return [(s, dict(v[3]).get(0, ("tuple", ())))]
                err = dict(v[3]).get(0)
                frame.done.append((s, "ret", ("adt", "core::result::Result", 1, ((0, ("into", err)),))))
                return []
            if v[1] == "core::option::Option":
                if v[2] == 1:
                    return [(s, dict(v[3]).get(0))]
                frame.done.append((s, "ret", ("adt", "core::option::Option", 0, ())))
                return []
        if isinstance(v, tuple) and v and v[0] == "okof":
            return [(s, v[1])]
        # opaque Result: success continues, the error edge propagates
        if self.explicit_try:
            s2 = s.fork()
            s2.events.append(("TryErr", frame.crate.span(e["sp"]), v))
            frame.done.append((s2, "ret", ("adt", "core::result::Result", 1, ((0, ("errof", v)),))))
        s.events.append(("TryEdge", frame.crate.span(e["sp"]), v))
        return [(s, ("tryok", v))]

    # ---- loops
    def for_loop(self, frame, e, st):
        # match into_iter(X) { mut iter => loop { match next(&mut iter) { None => break, Some(p) => body } } }
        scrut = e["scrut"]
        it_expr = scrut["args"][0] if scrut["k"] == "Call" and scrut["args"] else scrut
        arm = e["arms"][0]
        loop_e = arm["body"]
        # dig to the inner match
        inner = self._find_next_match(loop_e)
        out = []
        for (s, itv) in self.ev(frame, it_expr, st):
            itv = self.load_ref(s, itv)
            # `for x in v` over (a reference to) an array, slice or Vec is `for x in v.iter()`
            if self.iter_info(itv)[0] is None and "ty" in it_expr:
                at = strip_refs(self.ty(frame, it_expr["ty"]))
                n = None
                if at[0] == "array":
                    n = C(at[2]) if isinstance(at[2], int) else ("cparam", at[2][1]) if isinstance(at[2], tuple) else None
                if at[0] in ("array", "slice") or (at[0] == "adt" and at[1] == "alloc::vec::Vec"):
                    itv = ("iterof", itv, n if n is not None else self.length_of(itv))
            if inner is None:
                self.notes.append(("for-shape", frame.crate.span(e["sp"])))
                s.events.append(("UnknownLoop", frame.crate.span(e["sp"])))
                out.append((s, ("tuple", ())))
                continue
            some_arm = None
            for a in inner["arms"]:
                if a["pat"]["k"] == "Variant" and a["pat"].get("vname") == "Some":
                    some_arm = a
            out.extend(self.run_loop(frame, s, itv, some_arm["pat"]["subs"][0]["p"] if some_arm and some_arm["pat"]["subs"] else None,
                                     some_arm["body"] if some_arm else None, e))
        return out

    def _find_next_match(self, e):
        """Find `match Iterator::next(..)` inside a desugared loop."""
        if not isinstance(e, dict):
            return None
        if e.get("k") == "Match" and e["scrut"].get("k") == "Call":
            f = e["scrut"]["f"]
            return e
        if e.get("k") == "Loop":
            return self._find_next_match(e["body"])
        if e.get("k") == "Block":
            b = e["b"]
            if "expr" in b and not b["stmts"]:
                return self._find_next_match(b["expr"])
            if len(b["stmts"]) == 1 and b["stmts"][0]["k"] == "Expr" and "expr" not in b:
                return self._find_next_match(b["stmts"][0]["e"])
        if e.get("k") in ("Use", "NeverToAny"):
            return self._find_next_match(e["e"])
        return None

    def iter_info(self, itv):
        """(count, element-template-fn) for an iterable abstract value."""
        if isinstance(itv, tuple) and itv:
            if itv[0] == "adt" and itv[1] == "core::ops::range::Range":
                f = dict(itv[3])
                lo, hi = f.get(0), f.get(1)
                cnt = hi if lo == C(0) else self.binop("Sub", hi, lo)
                return cnt, "index"
            if itv[0] == "iterof":
                return itv[2], ("elem", itv[1])
            if itv[0] == "call" and itv[1] in ("iter", "iter_mut", "into_iter"):
                base = itv[2][0]
                return self.length_of(base), ("elem", base)
            if itv[0] == "call" and itv[1] in ("identity",):
                return self.iter_info(itv[2][0])
            if itv[0] in ("index", "rawslice", "vec", "bytes", "unsized"):
                # a slice-like value iterated directly (`for x in &mut v[..n]`)
                n = self.length_of(itv)
                if not (isinstance(n, tuple) and n and n[0] == "len" and n[1] == itv):
                    return n, ("elem", itv)
        return None, ("item", itv)

    def run_loop(self, frame, s, itv, pat, body, e):
        s.nloops += 1
        lid = s.nloops
        # `it.enumerate()` yields every item of `it`, paired with its index
        enumerated = False
        if isinstance(itv, tuple) and itv and itv[0] == "call" and itv[1] == "enumerate" and len(itv[2]) == 1:
            enumerated = True
            itv = itv[2][0]
        cnt, elem = self.iter_info(itv)
        if cnt is None:
            cnt = ("itercount", lid, itv)
        if elem == "index":
            elemv = ("loopidx", lid)
        else:
            base = elem[1]
            n = self.length_of(base) if elem[0] == "elem" else None
            elemv = ("elem", base, lid)
        if enumerated:
            elemv = ("tuple", (("loopidx", lid), elemv))
        outer_events = s.events
        s.events = []
        if pat is not None:
            self.bind(s, frame, pat, elemv)
        frame.loops.append({"breaks": [], "continues": []})
        env_before = {k: dict(v) for k, v in s.envs.items()}
        res = self.ev(frame, body, s) if body is not None else [(s, None)]
        lp = frame.loops.pop()
        iter_states = [x[0] for x in res] + lp["continues"]
        bodies = []
        for bs in iter_states:
            bodies.append((tuple(bs.conds[len(s.conds):]) if bs is not s else (), tuple(bs.events)))
        # early exits through break: summarised
        for (bs, _v) in lp["breaks"]:
            bodies.append((("break",) + tuple(bs.conds[len(s.conds):]), tuple(bs.events)))
        # state after the loop: start from the (single) iteration end state
        after = iter_states[0] if iter_states else s
        # variables changed inside the loop body
        changed = {}
        for fuid, envd in after.envs.items():
            before = env_before.get(fuid, {})
            for var, val in envd.items():
                if var in before and before[var] != val:
                    changed[(fuid, var)] = (before[var], val)
        for (fuid, var), (old, new) in changed.items():
            # counting idiom: v = v + 1 once per iteration
            if new == self.binop("Add", old, C(1)) or new == ("bin", "Add", old, C(1)):
                after.envs[fuid][var] = self.binop("Add", old, cnt)
            elif old == C(0) and new in (self.binop("Add", ("loopidx", lid), C(1)), ("bin", "Add", ("loopidx", lid), C(1)), ("bin", "Add", C(1), ("loopidx", lid))):
                # `count = index + 1` in every iteration, 0 before the loop: the number of iterations
                after.envs[fuid][var] = cnt
            elif isinstance(new, tuple) and new and new[0] == "vec" and isinstance(old, tuple) and old and old[0] == "vec":
                # Vec built by push in the loop
                after.envs[fuid][var] = ("vec", new[1], self.binop("Add", old[2], cnt), ("loop", lid, new[3]))
            else:
                after.envs[fuid][var] = ("loopvar", lid, old, new)
        body_events = bodies[0][1] if len(bodies) == 1 else ("alt", tuple(bodies))
        after.events = outer_events + [("Loop", cnt, body_events, lid, frame.crate.span(e["sp"]))]
        # conditions introduced inside the body do not survive the loop
        after.conds = after.conds[:len(s.conds)] if after is not s else after.conds
        return [(after, ("tuple", ()))]

    # ------------------------------------------------------------------ iterator adaptors driven by closures
    def call_closure(self, frame, s, clos, argvals):
        """Evaluate the body of a closure value in the environment of the frame that created it."""
        cb = self.u.bodies.get(clos[1])
        if cb is None or cb.thir is None:
            raise Unsupported("closure body not exported: %s" % (clos[1],))
        # the closure's generics are those of the function that created it, wherever it is called from
        fr = Frame(cb, getattr(self, "closure_tsub", {}).get((clos[1], clos[2]), frame.tsub), frame.depth)
        fr.uid = clos[2]                      # upvars are the creator's locals
        params = [p for p in cb.thir["params"] if "pat" in p]
        for p_, a in zip(params, argvals):
            self.bind(s, fr, p_["pat"], a)
        res = list(self.ev(fr, cb.thir["root"], s))
        for (s2, kind, v) in fr.done:
            if kind == "ret":
                res.append((s2, v))
            else:
                frame.done.append((s2, kind, v))
        return res

    def is_callable(self, v):
        return isinstance(v, tuple) and bool(v) and v[0] in ("closure", "fnitem")

    def call_value(self, frame, s, e, fv, argvals):
        """Call a first-class function value: a closure, or a function item (named function, method, constructor)."""
        if fv[0] == "closure":
            return self.call_closure(frame, s, fv, argvals)
        did, gargs = fv[1], fv[2]
        if "{constructor#" in did:
            var = did.rsplit("::", 2)[0] if did.endswith("}") else did
            parts = did.split("::")
            vname = parts[-2]
            enum = "::".join(parts[:-2])
            idx = None
            CORE_VARIANTS = {"core::option::Option": ("None", "Some"), "core::result::Result": ("Ok", "Err"),
                             "core::ops::range::Bound": ("Included", "Excluded", "Unbounded"),
                             "core::ops::control_flow::ControlFlow": ("Continue", "Break")}
            if enum in CORE_VARIANTS:
                idx = CORE_VARIANTS[enum].index(vname) if vname in CORE_VARIANTS[enum] else None
            else:
                ent = self.u.adts.get(enum)
                if ent is not None:
                    for v_ in ent[1]["variants"]:
                        if v_["name"] == vname:
                            idx = v_["index"]
                else:
                    ent = self.u.adts.get("::".join(parts[:-1]))      # tuple struct constructor
                    if ent is not None:
                        enum, idx = "::".join(parts[:-1]), 0
            if idx is None:
                raise Unsupported("constructor value %s" % did)
            return [(s, ("adt", enum, idx, tuple((i, a) for i, a in enumerate(argvals))))]
        ent = self.u.defs.get(did)
        if ent is None:
            raise Unsupported("function value %s" % did)
        return self.do_call(frame, s, e, did, ent[1], gargs, None, None, list(argvals))

    def closure_loop(self, frame, s, e, itv, clos, mode):
        """`it.map(f).collect()`, `it.try_for_each(f)`, `it.for_each(f)`: one symbolic iteration of the closure body,
        summarised exactly like a `for` loop over the same iterator."""
        s.nloops += 1
        lid = s.nloops
        cnt, elem = self.iter_info(itv)
        if cnt is None:
            cnt = ("itercount", lid, itv)
        if elem == "index":
            elemv = ("loopidx", lid)
        else:
            elemv = ("elem", elem[1], lid)
        outer_events = s.events
        s.events = []
        nconds = len(s.conds)
        res = self.call_closure(frame, s, clos, [elemv])
        if not res:
            s.events = outer_events
            return []
        bodies = [((tuple(bs.conds[nconds:]) if bs is not s else ()), tuple(bs.events)) for (bs, _v) in res]
        after, val = res[0]
        body_events = bodies[0][1] if len(bodies) == 1 else ("alt", tuple(bodies))
        after.events = outer_events + [("Loop", cnt, body_events, lid, frame.crate.span(e["sp"]))]
        after.conds = after.conds[:nconds]
        rt = self.ty(frame, e["ty"])
        is_res = rt[0] == "adt" and rt[1] == "core::result::Result"
        out = []
        opaque = None
        item = val
        if isinstance(val, tuple) and val and val[0] == "adt" and val[1] == "core::result::Result":
            item = dict(val[3]).get(0, ("tuple", ())) if val[2] == 0 else None
        elif is_res and mode != "for_each":
            opaque = val
            item = ("tryok", val)
        if mode == "collect":
            vt = rt[2][0] if is_res else rt
            et = vt[2][0] if (vt[0] == "adt" and vt[2]) else None
            v = ("vec", et, cnt, ("loop", lid, ("pushed", ("empty",), item)))
        else:
            v = ("tuple", ())
        if opaque is not None and self.explicit_try:
            s2 = after.fork()
            s2.events.append(("TryErr", frame.crate.span(e["sp"]), opaque))
            out.append((s2, ("adt", "core::result::Result", 1, ((0, ("errof", opaque)),))))
        out.append((after, ("adt", "core::result::Result", 0, ((0, v),)) if (is_res and mode != "for_each") else v))
        return out

    def _find_while_let_next(self, e):
        """`while let Some(p) = it.next() { body }`  =  loop { if let Some(p) = next(it) { body } else { break } }"""
        if not isinstance(e, dict):
            return None
        k = e.get("k")
        if k == "If" and e["cond"].get("k") == "LetExpr":
            le = e["cond"]
            call = le["e"]
            while call.get("k") in ("Use", "NeverToAny"):
                call = call["e"]
            if call.get("k") == "Call" and "d" in call.get("f", {}) and le["pat"].get("k") == "Variant" and le["pat"].get("vname") == "Some":
                return call, le["pat"], e["then"]
            return None
        if k == "Block":
            b = e["b"]
            if "expr" in b and not b["stmts"]:
                return self._find_while_let_next(b["expr"])
            if len(b["stmts"]) == 1 and b["stmts"][0]["k"] == "Expr" and "expr" not in b:
                return self._find_while_let_next(b["stmts"][0]["e"])
        if k in ("Use", "NeverToAny"):
            return self._find_while_let_next(e["e"])
        return None

    def _find_while_cond(self, e):
        """`while cond { body }`  =  loop { if cond { body } else { break } }  (cond not a `let`)"""
        if not isinstance(e, dict):
            return None
        k = e.get("k")
        if k == "If" and e["cond"].get("k") != "LetExpr" and "else" in e:
            el = e["else"]
            while isinstance(el, dict) and el.get("k") in ("Use", "NeverToAny", "Scope") and "e" in el:
                el = el["e"]
            if isinstance(el, dict) and el.get("k") == "Block":
                bb = el["b"]
                if not bb["stmts"] and "expr" in bb:
                    el = bb["expr"]
                elif len(bb["stmts"]) == 1 and bb["stmts"][0]["k"] == "Expr" and "expr" not in bb:
                    el = bb["stmts"][0]["e"]
                while isinstance(el, dict) and el.get("k") in ("Use", "NeverToAny", "Scope") and "e" in el:
                    el = el["e"]
            if isinstance(el, dict) and el.get("k") == "Break" and "e" not in el:
                return e["cond"], e["then"]
            return None
        if k == "Block":
            b = e["b"]
            if "expr" in b and not b["stmts"]:
                return self._find_while_cond(b["expr"])
            if len(b["stmts"]) == 1 and b["stmts"][0]["k"] == "Expr" and "expr" not in b:
                return self._find_while_cond(b["stmts"][0]["e"])
        if k in ("Use", "NeverToAny", "Scope"):
            return self._find_while_cond(e["e"])
        return None

    def counting_while(self, frame, e, st, cond_e, body_e):
        """A `while` whose condition compares a quantity that every iteration moves by exactly one step -- a counter
        (`i < n` with `i += 1`, `left != 0` with `left -= 1`) or the length of a vector the body pushes to once -- runs a
        known number of times. Returns the paths, or None when the shape is not recognised."""
        import copy
        probe = copy.deepcopy(st)
        try:
            c0s = self.ev(frame, cond_e, probe)
        except Unsupported:
            return None
        if len(c0s) != 1:
            return None
        s0, c0 = c0s[0]
        c0 = self.load_ref(s0, c0)
        if not (isinstance(c0, tuple) and c0 and c0[0] == "bin" and c0[1] in ("Lt", "Gt", "Ne", "Le", "Ge")):
            return None
        # one trial iteration on a copy, to see how the two sides move
        frame.loops.append({"breaks": [], "continues": []})
        try:
            res = self.ev(frame, body_e, s0)
        except Unsupported:
            frame.loops.pop()
            return None
        lp = frame.loops.pop()
        ends = [x[0] for x in res] + lp["continues"]
        if not ends or lp["breaks"]:
            return None
        count = None
        for s1 in ends:
            try:
                c1s = self.ev(frame, cond_e, copy.deepcopy(s1))
            except Unsupported:
                return None
            if len(c1s) != 1:
                return None
            c1 = self.load_ref(c1s[0][0], c1s[0][1])
            if not (isinstance(c1, tuple) and c1 and c1[0] == "bin" and c1[1] == c0[1]):
                # the condition folded to a constant after one step (constant bounds): not handled here
                return None
            a0, b0, a1, b1 = c0[2], c0[3], c1[2], c1[3]
            op = c0[1]
            this = None
            if b0 == b1 and a1 == self.binop("Add", a0, C(1)) and op in ("Lt", "Ne"):
                this = self.binop("Sub", b0, a0) if a0 != C(0) else b0           # i < n, i += 1
            elif a0 == a1 and b1 == self.binop("Add", b0, C(1)) and op in ("Gt", "Ne"):
                this = self.binop("Sub", a0, b0) if b0 != C(0) else a0           # n > i
            elif b0 == b1 and b0 == C(0) and op in ("Ne", "Gt") and (a1 == self.binop("Sub", a0, C(1)) or a1 == ("bin", "Sub", a0, C(1))):
                this = a0                                                        # left != 0, left -= 1
            if this is None or (count is not None and this != count):
                return None
            count = this
        if count is None:
            return None
        itv = ("adt", "core::ops::range::Range", 0, ((0, C(0)), (1, count)))
        return self.run_loop(frame, st, itv, None, body_e, e)

    def e_Loop(self, frame, e, st):
        wc = self._find_while_cond(e["body"])
        if wc is not None:
            r = self.counting_while(frame, e, st, wc[0], wc[1])
            if r is not None:
                return r
        wl = self._find_while_let_next(e["body"])
        if wl is not None:
            call, pat, body = wl
            nm = frame.crate.defj(call["f"]["d"]).get("name")
            if nm == "next" and call["args"]:
                out = []
                for (s, itv) in self.ev(frame, call["args"][0], st):
                    itv = self.load_ref(s, itv)
                    out.extend(self.run_loop(frame, s, itv, pat["subs"][0]["p"] if pat["subs"] else None, body, e))
                return out
        # generic loop: recognise `loop { match next(it) { Some(p) => body, None => break } }`
        inner = self._find_next_match(e["body"])
        if inner is not None and inner["scrut"]["k"] == "Call":
            nm = frame.crate.defj(inner["scrut"]["f"]["d"])["name"] if "d" in inner["scrut"]["f"] else None
            if nm == "next":
                arg = inner["scrut"]["args"][0]
                some_arm = None
                for a in inner["arms"]:
                    if a["pat"]["k"] == "Variant" and a["pat"].get("vname") == "Some":
                        some_arm = a
                if some_arm is not None:
                    out = []
                    for (s, itv) in self.ev(frame, arg, st):
                        itv = self.load_ref(s, itv)
                        out.extend(self.run_loop(frame, s, itv, some_arm["pat"]["subs"][0]["p"] if some_arm["pat"]["subs"] else None, some_arm["body"], e))
                    return out
        # unknown loop shape: one symbolic iteration
        st.nloops += 1
        lid = st.nloops
        outer = st.events
        st.events = []
        frame.loops.append({"breaks": [], "continues": []})
        res = self.ev(frame, e["body"], st)
        lp = frame.loops.pop()
        exits = lp["breaks"]
        bodies = [tuple(x[0].events) for x in res] + [tuple(x.events) for x in lp["continues"]] + [tuple(x[0].events) for x in exits]
        after = exits[0][0] if exits else (res[0][0] if res else st)
        after.events = outer + [("Loop", ("unknowncount", lid), bodies[0] if len(bodies) == 1 else ("alt", tuple(((), b) for b in bodies)), lid, frame.crate.span(e["sp"]))]
        return [(after, exits[0][1] if exits else ("tuple", ()))]

    # ------------------------------------------------------------------ calls
    def make_tsub(self, body, targs):
        m = {}
        gens = body.generics or []
        if not gens:
            # const / assoc const bodies have no generics list: use the impl's
            im = self.u.impl_of_item(body.id)
            if im is not None:
                gens = im.generics
        for g, a in zip(gens, targs):
            if a == ("lt",):
                continue
            m[g["index"]] = a
            if g["kind"] == "const":
                m[g["name"]] = a
        return m

    def e_Call(self, frame, e, st):
        f = e["f"]
        if "d" not in f:
            # closure / fn pointer call
            out = []
            for (s, vs) in self.ev_seq(frame, ([e["fun"]] if "fun" in e else []) + e["args"], st):
                fv = self.load_ref(s, vs[0]) if "fun" in e else None
                if fv is not None and self.is_callable(fv):
                    out.extend(self.call_value(frame, s, e, fv, list(vs[1:])))
                    continue
                out.append((s, ("call", "indirect", tuple(vs), None)))
            return out
        crate = frame.crate
        callee = crate.def_id(f["d"])
        dj = crate.defj(f["d"])
        targs = self.gargs(frame, f["a"])
        res = f.get("res")
        resolved = None
        rargs = None
        if res and not res.get("same") and "a" in res:
            resolved = crate.def_id(res["d"])
            rargs = self.gargs(frame, res["a"])
        out = []
        for (s, vs) in self.ev_seq(frame, e["args"], st):
            r = self.do_call(frame, s, e, callee, dj, targs, resolved, rargs, vs)
            out.extend(r)
        return out

    def do_call(self, frame, s, e, callee, dj, targs, resolved, rargs, args):
        sp = frame.crate.span(e["sp"])
        targs_lt = targs
        targs = tuple(a for a in targs if a != ("lt",))
        # a call through Fn/FnMut/FnOnce of a known function value is the call of that function
        if dj["krate"] == "core" and dj.get("name") in ("call", "call_mut", "call_once") and len(args) == 2 and "ops::function" in str(callee):
            fv = self.load_ref(s, args[0])
            tup = self.load_ref(s, args[1])
            if self.is_callable(fv) and isinstance(tup, tuple) and tup and tup[0] == "tuple":
                return self.call_value(frame, s, e, fv, list(tup[1]))
        # hooks first (domain specific primitives)
        if self.hooks is not None:
            r = self.hooks.call(self, frame, s, e, callee, dj, tuple(a for a in targs if a != ("lt",)), resolved, rargs, args)
            if r is not None:
                return r
        krate = dj["krate"]
        name = dj.get("name", "")
        sh = short(callee)
        # ---- panics
        if krate == "core" and name in ("panic", "panic_fmt", "panic_explicit", "unreachable_display",
                                        "panic_display", "panic_nounwind", "assert_failed"):
            frame.done.append((s, "panic", ("panic", sp, args)))
            return []
        if krate == "std" and name in ("begin_panic", "rust_panic"):
            frame.done.append((s, "panic", ("panic", sp, args)))
            return []
        # ---- Try machinery outside of the desugared match
        if sh == "Try::branch":
            return [(s, ("trybranch", args[0]))]
        if sh == "FromResidual::from_residual":
            return [(s, args[0])]
        # ---- the padding function is a primitive of the analysis (its arithmetic is not decided)
        if krate == "epserde" and name == "pad_align_to" and len(args) == 2 and dj["kind"] == "Fn":
            a, b = self.load_ref(s, args[0]), self.load_ref(s, args[1])
            if is_c(a) and is_c(b) and b[1] > 0 and self.fold_pad:
                return [(s, C((-a[1]) % b[1]))]
            return [(s, ("pad", a, b))]
        # ---- layout queries
        if krate == "core" and name == "size_of" and targs:
            return [(s, self.size_of(targs[0]))]
        if krate == "core" and name in ("align_of", "min_align_of") and targs:
            return [(s, self.align_of(targs[0]))]
        if krate == "core" and name == "type_name" and targs:
            return [(s, ("typename", targs[0]))]
        # ---- slice splitting = the two range indexings (bounds-checked: panics when n > len)
        if krate == "core" and name in ("split_at", "split_at_mut") and len(args) == 2:
            base, n = self.load_ref(s, args[0]), self.load_ref(s, args[1])
            s.events.append(("MayPanic", "index", sp, (base, n)))
            return [(s, ("tuple", (("index", base, ("adt", "core::ops::range::RangeTo", 0, ((0, n),))),
                                   ("index", base, ("adt", "core::ops::range::RangeFrom", 0, ((0, n),))))))]
        if krate == "core" and name == "size_of_val" and len(args) == 1:
            at = strip_refs(self.ty(frame, e["args"][0]["ty"]))
            v = self.load_ref(s, args[0])
            if at[0] == "slice":
                return [(s, self.binop("Mul", self.length_of(v), self.size_of(at[1])))]
            if at[0] == "prim" and at[1] == "str":
                return [(s, self.length_of(v))]
            return [(s, self.size_of(at))]
        # ---- iterator adaptors whose work is a closure
        if krate == "core" and name in ("map", "flat_map") and len(args) == 2 and isinstance(args[1], tuple) and args[1] and args[1][0] == "closure" and "iter" in dj.get("n", "").lower():
            return [(s, ("mapiter", self.load_ref(s, args[0]), args[1]))]
        if krate == "core" and name == "collect" and len(args) == 1 and isinstance(args[0], tuple) and args[0] and args[0][0] == "mapiter":
            return self.closure_loop(frame, s, e, args[0][1], args[0][2], "collect")
        if krate == "core" and name in ("try_for_each", "for_each") and len(args) == 2 and isinstance(args[1], tuple) and args[1] and args[1][0] == "closure":
            return self.closure_loop(frame, s, e, self.load_ref(s, args[0]), args[1], name)
        # ---- length
        if krate in ("core", "alloc") and name in ("len", "iter", "iter_mut") and len(args) == 1:
            at = strip_refs(self.ty(frame, e["args"][0]["ty"]))
            n = None
            if at[0] == "array":
                n = C(at[2]) if isinstance(at[2], int) else ("cparam", at[2][1]) if isinstance(at[2], tuple) else None
            base = self.load_ref(s, args[0])
            if name == "len":
                return [(s, n if n is not None else self.length_of(base))]
            keep = args[0] if (isinstance(args[0], tuple) and args[0] and args[0][0] == "mref") else base
            return [(s, ("iterof", keep, n if n is not None else self.length_of(base)))]
        if krate in ("core", "alloc") and name == "is_empty" and len(args) == 1:
            l = self.length_of(self.load_ref(s, args[0]))
            return [(s, self.binop("Eq", l, C(0)))]
        if krate == "core" and name in ("max", "min") and len(args) == 2:
            a, b = self.load_ref(s, args[0]), self.load_ref(s, args[1])
            unname = lambda x: C(x[2]) if (isinstance(x, tuple) and x and x[0] == "namedc" and isinstance(x[2], int)) else x
            if (is_c(a) or is_c(b)) or (unname(a) is not a and unname(b) is not b):
                a, b = unname(a), unname(b)
            if is_c(a) and is_c(b):
                return [(s, C(max(a[1], b[1]) if name == "max" else min(a[1], b[1])))]
            if a == b:
                return [(s, a)]
            x, y = sorted([a, b], key=repr)
            return [(s, ("call", name, (x, y), None))]
        if krate == "core" and name in ("filter", "map", "ok_or", "ok_or_else", "and_then", "unwrap_or", "unwrap_or_else", "is_some", "is_none", "map_or") and args:
            a = self.load_ref(s, args[0])
            if ("option::Option" in (dj.get("n") or "") or "core::option::" in str(callee)) and not (isinstance(a, tuple) and a and a[0] == "adt") and name not in ("is_some", "is_none") \
                    and (len(args) < 2 or self.is_callable(args[1]) or name in ("ok_or", "unwrap_or")):
                # an Option nobody has looked inside yet: the combinator does, exactly like a `match` on it would
                OPT = "core::option::Option"
                out = []
                for vi, vname in ((1, "Some"), (0, "None")):
                    s2 = s.fork() if vi == 1 else s
                    known = [c for c in s2.conds if c[0] == "variant" and c[1] == a and c[2] == OPT]
                    if known and any(c[3] != vi for c in known):
                        continue
                    if not known:
                        s2.conds.append(("variant", a, OPT, vi, vname))
                    val = ("adt", OPT, 1, ((0, ("vfield", a, 1, 0)),)) if vi == 1 else ("adt", OPT, 0, ())
                    out.extend(self.do_call(frame, s2, e, callee, dj, targs_lt, resolved, rargs, [val] + list(args[1:])))
                return out
            if isinstance(a, tuple) and a and a[0] == "adt" and a[1] == "core::option::Option":
                OPT, RES = "core::option::Option", "core::result::Result"
                some = a[2] == 1
                pay = dict(a[3]).get(0) if some else None
                if name == "is_some":
                    return [(s, C(int(some)))]
                if name == "is_none":
                    return [(s, C(int(not some)))]
                if name == "ok_or" and len(args) == 2:
                    return [(s, ("adt", RES, 0, ((0, pay),)) if some else ("adt", RES, 1, ((0, self.load_ref(s, args[1])),)))]
                if name == "unwrap_or" and len(args) == 2:
                    return [(s, pay if some else self.load_ref(s, args[1]))]
                if len(args) == 2 and self.is_callable(args[1]):
                    if name == "ok_or_else":
                        if some:
                            return [(s, ("adt", RES, 0, ((0, pay),)))]
                        return [(s2, ("adt", RES, 1, ((0, v2),))) for (s2, v2) in self.call_value(frame, s, e, args[1], [])]
                    if name == "unwrap_or_else":
                        if some:
                            return [(s, pay)]
                        return self.call_value(frame, s, e, args[1], [])
                    if not some:
                        return [(s, a)]
                    if name == "map":
                        return [(s2, ("adt", OPT, 1, ((0, v2),))) for (s2, v2) in self.call_value(frame, s, e, args[1], [pay])]
                    if name == "and_then":
                        return self.call_value(frame, s, e, args[1], [pay])
                    if name == "filter":
                        out = []
                        for (s2, v2) in self.call_value(frame, s, e, args[1], [("ref", pay) if False else pay]):
                            v2 = self.load_ref(s2, v2)
                            if is_c(v2):
                                out.append((s2, a if v2[1] else ("adt", OPT, 0, ())))
                                continue
                            s3 = s2.fork()
                            s2.conds.append(("true", v2, sp, len(s2.events)))
                            s3.conds.append(("false", v2, sp, len(s3.events)))
                            out.append((s2, a))
                            out.append((s3, ("adt", OPT, 0, ())))
                        return out
        if krate == "core" and name == "inspect_err" and len(args) == 2 and self.is_callable(args[1]):
            a = self.load_ref(s, args[0])
            if isinstance(a, tuple) and a and a[0] == "adt" and a[1] == "core::result::Result":
                if a[2] == 0:
                    return [(s, a)]
                return [(s2, a) for (s2, _v) in self.call_value(frame, s, e, args[1], [("ref", dict(a[3]).get(0))])]
            return [(s, ("inspected", a, args[1]))]          # opaque: the closure runs on the error edge (try_value)
        if krate == "core" and name in ("or_else", "and_then", "map", "map_err") and len(args) == 2 and self.is_callable(args[1]):
            a = self.load_ref(s, args[0])
            if isinstance(a, tuple) and a and a[0] == "adt" and a[1] == "core::result::Result":
                is_ok = a[2] == 0
                payload = dict(a[3]).get(0, ("tuple", ()))
                if (name in ("or_else", "map_err") and is_ok) or (name in ("and_then", "map") and not is_ok):
                    return [(s, a)]                       # the closure does not run
                out = []
                for (s2, v2) in self.call_value(frame, s, e, args[1], [payload]):
                    if name == "map":
                        v2 = ("adt", "core::result::Result", 0, ((0, v2),))
                    elif name == "map_err":
                        v2 = ("adt", "core::result::Result", 1, ((0, v2),))
                    out.append((s2, v2))
                return out
        if krate == "core" and name == "and" and len(args) == 2:
            # Result::and / Option::and: the argument has already been evaluated (eagerly) when we get here
            a, b2 = self.load_ref(s, args[0]), self.load_ref(s, args[1])
            if isinstance(a, tuple) and a and a[0] == "adt" and a[1] in ("core::result::Result", "core::option::Option"):
                good = 0 if a[1] == "core::result::Result" else 1
                return [(s, b2 if a[2] == good else a)]
            return [(s, ("call", "and", (a, b2), None))]
        if krate == "core" and name == "clamp" and len(args) == 3:
            x, lo, hi = (self.load_ref(s, a) for a in args)
            if is_c(x) and is_c(lo) and is_c(hi):
                return [(s, C(min(max(x[1], lo[1]), hi[1])))]
            return [(s, ("call", "clamp", (x, lo, hi), None))]
        if krate == "core" and name in ("next_multiple_of", "is_multiple_of", "div_ceil", "rem_euclid", "div_euclid") and len(args) == 2:
            a, b = self.load_ref(s, args[0]), self.load_ref(s, args[1])
            if is_c(a) and is_c(b) and b[1] > 0:
                r = {"next_multiple_of": ((a[1] + b[1] - 1) // b[1]) * b[1], "is_multiple_of": int(a[1] % b[1] == 0), "div_ceil": (a[1] + b[1] - 1) // b[1],
                     "rem_euclid": a[1] % b[1], "div_euclid": a[1] // b[1]}[name]
                if r <= 0xFFFFFFFFFFFFFFFF:
                    return [(s, C(r))]
            return [(s, ("call", name, (a, b), None))]
        if krate == "core" and name in ("is_power_of_two", "trailing_zeros", "leading_zeros", "count_ones") and len(args) == 1:
            a = self.load_ref(s, args[0])
            if is_c(a) and a[1] >= 0:
                v = a[1]
                r = {"is_power_of_two": int(v > 0 and v & (v - 1) == 0), "trailing_zeros": (64 if v == 0 else (v & -v).bit_length() - 1),
                     "leading_zeros": 64 - v.bit_length(), "count_ones": bin(v).count("1")}[name]
                return [(s, C(r))]
            return [(s, ("call", name, (a,), None))]
        if krate == "core" and name in ("try_from", "try_into") and len(args) == 1 and targs:
            a = self.load_ref(s, args[0])
            tgt = targs[0] if name == "try_from" else (targs[1] if len(targs) > 1 else None)
            BITS = {"u8": 8, "u16": 16, "u32": 32, "u64": 64, "usize": 64, "u128": 128}
            if is_c(a) and isinstance(tgt, tuple) and tgt[0] == "prim" and tgt[1] in BITS and a[1] >= 0:
                if a[1] < (1 << BITS[tgt[1]]):
                    return [(s, ("adt", "core::result::Result", 0, ((0, a),)))]
                return [(s, ("adt", "core::result::Result", 1, ((0, ("opaque", "TryFromIntError")),)))]
        if krate == "core" and name in ("checked_sub", "checked_add") and len(args) == 2:
            a, b = self.load_ref(s, args[0]), self.load_ref(s, args[1])
            OPT = "core::option::Option"
            if name == "checked_sub":
                if is_c(a) and is_c(b):
                    return [(s, ("adt", OPT, 1, ((0, C(a[1] - b[1])),)) if a[1] >= b[1] else ("adt", OPT, 0, ()))]
                s2 = s.fork()
                s.conds.append(("true", ("bin", "Ge", a, b), sp, len(s.events)))
                s2.conds.append(("false", ("bin", "Ge", a, b), sp, len(s2.events)))
                return [(s, ("adt", OPT, 1, ((0, self.binop("Sub", a, b)),))), (s2, ("adt", OPT, 0, ()))]
        if krate == "core" and name == "wrapping_neg" and len(args) == 1:
            a = self.load_ref(s, args[0])
            if is_c(a):
                return [(s, C((-a[1]) & 0xFFFFFFFFFFFFFFFF))]
            return [(s, ("call", "wrapping_neg", (a,), None))]
        if krate == "core" and name in ("saturating_sub", "wrapping_sub", "wrapping_add", "saturating_add", "saturating_mul") and len(args) == 2:
            a, b = self.load_ref(s, args[0]), self.load_ref(s, args[1])
            if is_c(a) and is_c(b):
                M = 0xFFFFFFFFFFFFFFFF
                r = {"saturating_sub": max(0, a[1] - b[1]), "wrapping_sub": (a[1] - b[1]) & M, "wrapping_add": (a[1] + b[1]) & M,
                     "saturating_add": min(M, a[1] + b[1]), "saturating_mul": min(M, a[1] * b[1])}[name]
                return [(s, C(r))]
            return [(s, ("call", name, (a, b), None))]
        # ---- identity-like views
        if (krate, name) in IDENTITY_FNS and len(args) >= 1:
            a0 = args[0]
            if isinstance(a0, tuple) and a0 and a0[0] == "manuallydrop" and name in ("deref", "deref_mut"):
                return [(s, a0[1])]
            return [(s, a0)]
        # ---- slices / raw memory
        if krate == "core" and name in ("from_raw_parts", "from_raw_parts_mut") and len(args) == 2:
            ptr, n = self.load_ref(s, args[0]), self.load_ref(s, args[1])
            elem = targs[0] if targs else ("prim", "u8")
            if isinstance(ptr, tuple) and ptr and ptr[0] == "ptrto":
                obj, pointee = ptr[1], ptr[2]
                return [(s, ("rawslice", obj, pointee, elem, n))]
            return [(s, ("rawslice", ptr, None, elem, n))]
        if krate in ("core", "alloc") and name in ("as_ptr", "as_mut_ptr") and len(args) == 1:
            base = args[0]
            bt = self.ty(frame, e["args"][0]["ty"])
            et = self.ty(frame, e["ty"])
            pointee = et[2] if et[0] == "ptr" else None
            return [(s, ("ptrto", ("elems", base), pointee))]
        if krate == "core" and name in ("align_to", "align_to_mut") and len(args) == 1:
            base = args[0]
            T, U = (targs[0], targs[1]) if len(targs) >= 2 else (None, None)
            lb = self.load_ref(s, base)
            if isinstance(lb, tuple) and lb and lb[0] == "peek":
                # bytes at the cursor reinterpreted as [U]
                s.events.append(("PeekTyped", lb[2] if len(lb) > 2 else None, U))
                return [(s, ("alignto", ("tpeek", lb[1], U, lb[2] if len(lb) > 2 else None)))]
            cnt = self.length_of(lb)
            root = base if (isinstance(base, tuple) and base and base[0] == "mref") else lb
            if T is not None and U == ("prim", "u8"):
                # typed storage viewed as bytes
                if isinstance(lb, tuple) and lb and lb[0] == "uninit_typed":
                    cnt = lb[2]
                return [(s, ("alignto", ("view", root, T, cnt)))]
            return [(s, ("alignto", ("reinterp", lb, T, U)))]
        if krate == "core" and name == "transmute" and len(args) == 1:
            return [(s, ("call", "transmute", (self.load_ref(s, args[0]),), self.ty(frame, e["ty"])))]
        # ---- MaybeUninit
        if krate == "core" and name == "uninit" and not args:
            t = self.ty(frame, e["ty"])
            inner = t[2][0] if t[0] == "adt" and t[2] else t
            return [(s, ("uninit", inner))]
        if krate == "core" and name == "assume_init" and len(args) == 1:
            v = self.load_ref(s, args[0])
            if isinstance(v, tuple) and v and v[0] == "uninit":
                s.events.append(("AssumeInitUninit", sp, v[1]))
                return [(s, ("garbage", v[1]))]
            return [(s, v)]
        if krate == "core" and name == "as_mut_ptr" and len(args) == 1:
            return [(s, ("ptrto", args[0], None))]
        # ---- Vec building
        if krate == "alloc" and name in ("with_capacity", "new") and dj["n"].startswith("std::vec::Vec"):
            t = self.ty(frame, e["ty"])
            et = t[2][0] if t[0] == "adt" and t[2] else None
            cap = self.load_ref(s, args[0]) if args else C(0)
            return [(s, ("vec", et, C(0), ("empty",), cap))]
        if krate == "alloc" and name == "from_elem" and len(args) == 2:
            t = self.ty(frame, e["ty"])
            et = t[2][0] if t[0] == "adt" and t[2] else None
            return [(s, ("vec", et, self.load_ref(s, args[1]), ("repeat", self.load_ref(s, args[0]))))]
        if krate == "alloc" and name == "set_len" and len(args) == 2:
            tgt = args[0]
            cur = self.load_ref(s, tgt)
            n = self.load_ref(s, args[1])
            s.events.append(("SetLen", cur[1] if (isinstance(cur, tuple) and cur and cur[0] == "vec") else None, n, sp, cur))
            if isinstance(cur, tuple) and cur and cur[0] == "vec":
                nv = ("vec", cur[1], n, ("uninit",)) + tuple(cur[4:])
                self.store_ref(s, tgt, nv)
            return [(s, ("tuple", ()))]
        if krate == "alloc" and name == "push" and len(args) == 2:
            tgt = args[0]
            cur = self.load_ref(s, tgt)
            x = self.load_ref(s, args[1])
            if isinstance(cur, tuple) and cur and cur[0] == "vec":
                nv = ("vec", cur[1], self.binop("Add", cur[2], C(1)), ("pushed", cur[3], x)) + tuple(cur[4:])
                self.store_ref(s, tgt, nv)
            elif isinstance(tgt, tuple) and tgt and tgt[0] == "mref":
                self.store_ref(s, tgt, ("pushed", cur, x))
            else:
                s.events.append(("Store", self.load_ref(s, tgt), (("m", 0, "push"),), x))
            return [(s, ("tuple", ()))]
        if krate == "core" and name == "write" and len(args) == 2 and ("ptr" in dj["n"]):
            # ptr::write(dst, v)
            dst, v = args[0], self.load_ref(s, args[1])
            if isinstance(dst, tuple) and dst and dst[0] == "mref":
                self.store_ref(s, dst, v)
            else:
                d = self.load_ref(s, dst)
                # element of a container being filled in a loop
                base = d
                while isinstance(base, tuple) and base and base[0] in ("elem", "ptrto", "field"):
                    base = base[1]
                if isinstance(base, tuple) and base and base[0] == "mref":
                    self.store_ref(s, base, ("filled", self.load_ref(s, base), d, v))
                else:
                    s.events.append(("Store", d, (), v))
            return [(s, ("tuple", ()))]
        if krate == "core" and name == "new" and "ManuallyDrop" in dj.get("n", "") and len(args) == 1:
            s.events.append(("ManuallyDrop", sp, self.load_ref(s, args[0])))
            return [(s, ("manuallydrop", self.load_ref(s, args[0])))]
        if krate == "core" and name == "forget" and len(args) == 1:
            s.events.append(("Forget", sp, self.load_ref(s, args[0])))
            return [(s, ("tuple", ()))]
        # ---- unwrap family: value passes through, may panic
        if krate == "core" and name in ("unwrap", "expect", "unwrap_unchecked") and len(args) >= 1:
            v = self.load_ref(s, args[0])
            s.events.append(("MayPanic", name, sp, (v,)))
            if isinstance(v, tuple) and v and v[0] == "adt" and v[1] in ("core::result::Result", "core::option::Option"):
                okv = 0 if v[1].endswith("Result") else 1
                if v[2] == okv:
                    return [(s, dict(v[3]).get(0, ("tuple", ())))]
                frame.done.append((s, "panic", ("panic", sp, (v,))))
                return []
            return [(s, ("unwrapped", v))]
        # ---- inline universe functions
        target = resolved or callee
        b = self.u.body(target)
        tr_item = self._trait_item_short(frame, e, dj, target)
        if tr_item == "MaxSizeOf::max_size_of" and targs:
            return [(s, ("unit", targs[0]))]
        if b is not None and b.thir is not None and tr_item not in RECURSIVE_TRAITS and frame.depth < MAX_DEPTH:
            return self.inline(frame, s, e, b, rargs if resolved else targs_lt, args)
        # unresolved trait method with impls in the universe: split over impls (helpers)
        if resolved is None and dj["kind"] == "AssocFn" and dj.get("parent_kind") == "Trait" and tr_item not in RECURSIVE_TRAITS:
            r = self.split_over_impls(frame, s, e, callee, dj, targs_lt, args)
            if r is not None:
                return r
        # ---- opaque
        lv = tuple(self.load_ref(s, a) for a in args)
        s.events.append(("Call", krate, name, callee, sp, dj.get("n", ""), lv))
        if any(self.mentions_backend(a) for a in lv):
            s.events.append(("UnknownBackendUse", callee, sp))
        # mutation of by-reference state through &mut by unknown code: recorded as a store
        for i, (a, ae) in enumerate(zip(args, e["args"])):
            if ae.get("k") == "Borrow" and ae.get("m") and not (isinstance(a, tuple) and a and a[0] == "mref"):
                la = lv[i]
                if isinstance(la, tuple) and la and la[0] in ("field", "self", "param", "backend"):
                    s.events.append(("Store", la, (("m", 0, name),), tuple(x for j, x in enumerate(lv) if j != i)))
        # mutation of locals through &mut by unknown code
        for a in args:
            if isinstance(a, tuple) and a and a[0] == "mref":
                old = self.load_ref(s, a)
                self.store_ref(s, a, ("mutated", name, old, tuple(x for x in lv if x != old), (callee, targs)))
        rv = ("call", name, lv, (callee, targs))
        rt = self.ty(frame, e["ty"])
        if rt[0] == "array" and rt[1] == ("prim", "u8") and isinstance(rt[2], int):
            rv = ("bytes", C(rt[2]), ("of", rv))
        return [(s, rv)]

    def _trait_item_short(self, frame, e, dj, target):
        """'Trait::method' of the trait item implemented by target (or of target itself)."""
        ti = self.u.trait_item_of(target)
        return short(ti) if ti else short(target)

    def store_ref(self, st, ref, val):
        if isinstance(ref, tuple) and ref and ref[0] == "mref":
            _, fuid, var, path = ref
            envd = st.envs.setdefault(fuid, {})
            if not path:
                envd[var] = val
            else:
                envd[var] = self.update(envd.get(var, ("unknown", "unbound")), list(path), val)
            return True
        return False

    def mentions_backend(self, v, depth=0):
        if not isinstance(v, tuple) or depth > 6:
            return False
        if v and v[0] in ("backend", "bdata"):
            return True
        return any(self.mentions_backend(x, depth + 1) for x in v if isinstance(x, tuple))

    def inline(self, frame, s, e, b, targs, args):
        tsub = self.make_tsub(b, targs or ())
        fr = Frame(b, tsub, frame.depth + 1)
        envd = {}
        params = b.thir["params"]
        s.envs[fr.uid] = envd
        for p, a in zip(params, args):
            if "pat" in p:
                self.bind(s, fr, p["pat"], a)
        res = self.ev(fr, b.thir["root"], s)
        out = []
        for (s2, v) in res:
            s2.envs.pop(fr.uid, None)
            out.append((s2, v))
        for (s2, kind, v) in fr.done:
            s2.envs.pop(fr.uid, None)
            if kind == "ret":
                out.append((s2, v))
            else:
                frame.done.append((s2, kind, v))
        if len(out) > MAX_PATHS:
            raise Unsupported("path explosion")
        return out

    def split_over_impls(self, frame, s, e, callee, dj, targs, args):
        """Unresolved trait method: one path per universe impl whose header unifies."""
        # trait id = parent of callee
        tid = "::".join(callee.split("::")[:-1])
        impls = self.u.impls_by_trait.get(tid)
        if not impls:
            return None
        name = dj.get("name")
        selft = targs[0] if targs else None
        out = []
        cands = []
        for im in impls:
            m = {}
            if selft is not None and not unify(im.self_ty, selft, m):
                continue
            # trait args after Self
            ok = True
            conds = []
            for pa, aa in zip(im.trait_args[1:], targs[1:]):
                m2 = dict(m)
                if unify(pa, aa, m2):
                    m = m2
                    if pa != aa:
                        conds.append(("tyeq", aa, subst(pa, m)))
                else:
                    if facts.has_param(aa) or (isinstance(aa, tuple) and aa[0] == "alias"):
                        conds.append(("tyeq", aa, subst(pa, m)))
                    else:
                        ok = False
                        break
            if not ok:
                continue
            mid = im.item_id(name)
            if mid is None:
                continue
            b = self.u.body(mid)
            if b is None or b.thir is None:
                continue
            cands.append((im, m, conds, b))
        if not cands:
            return None
        for (im, m, conds, b) in cands:
            s2 = s.fork() if len(cands) > 1 else s
            s2.conds.extend(conds)
            # impl params from unification; method-level params from the call's trailing targs
            gens = b.generics or []
            targs_full = []
            ntrait = len(self.u.traits[tid][1]["generics"]) if tid in self.u.traits else len(im.trait_args)
            extra = list(targs[ntrait:])
            for g in gens:
                if g["index"] in m:
                    targs_full.append(m[g["index"]])
                elif g["kind"] == "const" and g["name"] in m:
                    targs_full.append(m[g["name"]])
                elif extra:
                    targs_full.append(extra.pop(0))
                else:
                    targs_full.append(("param", g["name"], g["index"]))
            out.extend(self.inline(frame, s2, e, b, tuple(targs_full), args))
        return out

    # ------------------------------------------------------------------ entry
    def run(self, body, params=None, targs=None, init=None):
        """Symbolically run a body. params: list of abstract values for the parameters
        (default: ('param', name)).  Returns list[Path]."""
        tsub = self.make_tsub(body, targs) if targs else {}
        fr = Frame(body, tsub, 0)
        st = St()
        envd = {}
        st.envs[fr.uid] = envd
        if init:
            init(st)
        if body.thir is None:
            raise Unsupported("no THIR for " + body.id)
        ps = body.thir["params"]
        for i, p in enumerate(ps):
            if params is not None and i < len(params) and params[i] is not None:
                v = params[i]
                if isinstance(v, tuple) and v and v[0] == "byref":
                    # by-reference parameter modelled as a reference to a synthetic local
                    envd["$p%d" % i] = v[1]
                    v = ("mref", fr.uid, "$p%d" % i, ())
            else:
                nm = p["pat"].get("name") if "pat" in p and p["pat"]["k"] == "Binding" else "arg%d" % i
                v = ("self",) if p.get("self") else ("param", nm)
            if "pat" in p:
                self.bind(st, fr, p["pat"], v)
        res = self.ev(fr, body.thir["root"], st)
        paths = []

        def mk(s, kind, v):
            p = Path(tuple(s.conds), tuple(s.events), kind, v)
            envd2 = s.envs.get(fr.uid, {})
            p.env = {k: val for k, val in envd2.items() if isinstance(k, str) and k.startswith("$p")}
            return p
        for (s, v) in res:
            paths.append(mk(s, "ret", v))
        for (s, kind, v) in fr.done:
            paths.append(mk(s, kind, v))
        return paths
