"""HASHREC: recipes of TypeHash::type_hash / AlignHash::align_hash bodies.

A recipe is the ordered list of feeds into the hasher:
  ('Str', text)            <str as Hash>::hash of a literal
  ('Usz', value)           <usize as Hash>::hash / Hasher::write_usize of a value (const param, size, padding)
  ('Rec', T)               <T as TypeHash>::type_hash(hasher)
  ('RecA', T, off)         <T as AlignHash>::align_hash(hasher, off)   off = 'threaded' | ('fresh', value)
  ('Off', value)           store to the threaded offset
"""
from . import facts, interp
from .facts import ty_str, unify
from .interp import C, is_c, short
from .guards import label

TH = "epserde::traits::type_info::TypeHash"
AH = "epserde::traits::type_info::AlignHash"


class HashHooks:
    def __init__(self, offset_ref=None, expand=None):
        self.expand = expand     # callable(trait, T) -> bool : inline nested impls (closed-type streams)

    def call(self, ip, frame, st, e, callee, dj, targs, resolved, rargs, args):
        ti = ip.u.trait_item_of(resolved or callee) or callee
        sh = short(ti)
        sp = frame.crate.span(e["sp"])
        if sh == "Hash::hash" and len(args) == 2:
            v = ip.load_ref(st, args[0])
            T = targs[0] if targs else None
            if T == ("prim", "str") or (isinstance(v, tuple) and v and v[0] == "s"):
                st.events.append(("Str", v[1] if isinstance(v, tuple) and v[0] == "s" else v, sp))
            else:
                st.events.append(("Usz", v, T, sp))
            return [(st, ("tuple", ()))]
        if sh.startswith("Hasher::write_") and len(args) == 2:
            st.events.append(("Usz", ip.load_ref(st, args[1]), ("prim", sh.split("write_")[-1]), sp))
            return [(st, ("tuple", ()))]
        if sh == "TypeHash::type_hash" and len(args) == 1:
            T = targs[0] if targs else None
            if self.expand and self.expand(TH, T):
                return None
            st.events.append(("Rec", T, sp))
            return [(st, ("tuple", ()))]
        if sh == "AlignHash::align_hash" and len(args) == 2:
            T = targs[0] if targs else None
            if self.expand and self.expand(AH, T):
                return None
            off = args[1]
            if isinstance(off, tuple) and off and off[0] == "mref" and str(off[2]).startswith("$p"):
                cur = ip.load_ref(st, off)
                st.events.append(("RecA", T, ("threaded", cur), sp))
                # the callee advances the offset in an unknown way
                ip.store_ref(st, off, ("after", T, cur))
            else:
                st.events.append(("RecA", T, ("fresh", ip.load_ref(st, off)), sp))
                if isinstance(off, tuple) and off and off[0] == "mref":
                    ip.store_ref(st, off, ("after", T, ip.load_ref(st, off)))
            return [(st, ("tuple", ()))]
        return None


def recipe_of(u, body, kind, targs=None, expand=None, offset0=("sym", "offset")):
    """Paths of a type_hash / align_hash body as recipes. -> list of (conds, [feeds], final_offset)"""
    hooks = HashHooks(expand=expand)
    ip = interp.Interp(u, hooks)
    if expand:
        interp_allow_recursive(ip)
    params = [("hasher",)] if kind == "type" else [("hasher",), ("byref", offset0)]
    nparams = len(body.thir["params"])
    params = params[:nparams]
    out = []

    def grab(st):
        pass
    paths = ip.run(body, params, targs)
    for p in paths:
        feeds = [e for e in p.events if e[0] in ("Str", "Usz", "Rec", "RecA")]
        out.append((p.conds, feeds, p))
    return ip, out


def interp_allow_recursive(ip):
    ip.inline_recursive = True


def feed_str(f):
    if f[0] == "Str":
        return "Str(%r)" % (f[1],)
    if f[0] == "Usz":
        return "Usz(%s)" % label(f[1])
    if f[0] == "Rec":
        return "Rec(%s)" % ty_str(f[1])
    if f[0] == "RecA":
        return "RecA(%s,%s(%s))" % (ty_str(f[1]), f[2][0], label(f[2][1]))
    return str(f)


def impls_of(u, trait):
    return u.impls_by_trait.get(trait, [])


def params_in(t, acc=None):
    """type / const parameter names occurring in a type"""
    if acc is None:
        acc = set()
    if not isinstance(t, tuple) or not t:
        return acc
    if t[0] == "param":
        acc.add(t[1])
        return acc
    if t[0] == "cparam":
        acc.add(t[1])
        return acc
    for x in t[1:]:
        if isinstance(x, tuple):
            if x and isinstance(x[0], tuple):
                for y in x:
                    params_in(y, acc)
            else:
                params_in(x, acc)
    return acc
