"""Loading of epsfacts JSON documents into one crate-independent universe.

Types become hashable Python tuples so that facts of several crates (epserde,
witness crates) can be mixed and generic substitution can be done in Python:

  ('prim', 'u8') ('adt', 'alloc::vec::Vec', (args...)) ('array', T, len)
  ('slice', T) ('ref', mut, T) ('ptr', mut, T) ('tuple', (T...))
  ('param', name, index) ('alias', kind, def_id, (args...)) ('fndef', def_id, (args...))
  ('closure', def_id) ('other', string)
generic args inside tuples:  types, ('const', value|('cparam', name)|('cexpr', s)), ('lt',)
"""
import json
import os
import sys

sys.setrecursionlimit(10000)


class Def:
    __slots__ = ("id", "n", "krate", "kind", "local", "name", "parent", "parent_kind",
                 "trait_item", "of_trait")

    def __init__(self, j, defs):
        self.id = j["id"]
        self.n = j["n"]
        self.krate = j["krate"]
        self.kind = j["kind"]
        self.local = j.get("local", False)
        self.name = j.get("name")
        self.parent = j.get("parent")
        self.parent_kind = j.get("parent_kind")
        self.trait_item = j.get("trait_item")
        self.of_trait = j.get("of_trait")

    def __repr__(self):
        return "Def(%s)" % self.id


class Crate:
    """One exported crate. Converts indices into universe-level objects lazily."""

    def __init__(self, path):
        with open(path) as f:
            self.j = json.load(f)
        self.name = self.j["crate"]
        self.files = self.j["files"]
        self.raw_defs = self.j["defs"]
        self.raw_tys = self.j["tys"]
        self._ty_cache = {}
        self.cfg = self.j.get("cfg", [])

    # ---- defs
    def def_id(self, i):
        return self.raw_defs[i]["id"]

    def def_name(self, i):
        return self.raw_defs[i]["n"]

    def defj(self, i):
        return self.raw_defs[i]

    # ---- types
    def const(self, c):
        if "p" in c:
            return ("const", ("cparam", c["p"]))
        if "v" in c:
            return ("const", c["v"])
        if "uneval" in c:
            return ("const", ("cexpr", c.get("s", "?")))
        return ("const", ("cexpr", c.get("s", "?")))

    def garg(self, a):
        if "t" in a:
            return self.ty(a["t"])
        if "c" in a:
            return self.const(a["c"])
        return ("lt",)

    def gargs(self, arr):
        return tuple(self.garg(a) for a in arr)

    def ty(self, i):
        t = self._ty_cache.get(i)
        if t is not None:
            return t
        j = self.raw_tys[i]
        k = j.get("k")
        if k == "prim":
            t = ("prim", j["s"])
        elif k == "adt":
            t = ("adt", self.def_id(j["d"]), self.gargs(j["a"]))
        elif k == "array":
            t = ("array", self.ty(j["t"]), self.const(j["len"])[1])
        elif k == "slice":
            t = ("slice", self.ty(j["t"]))
        elif k == "ref":
            t = ("ref", bool(j["m"]), self.ty(j["t"]))
        elif k == "ptr":
            t = ("ptr", bool(j["m"]), self.ty(j["t"]))
        elif k == "tuple":
            t = ("tuple", tuple(self.ty(x) for x in j["ts"]))
        elif k == "param":
            t = ("param", j["n"], j["i"])
        elif k == "alias":
            t = ("alias", j["ak"], self.def_id(j["d"]), self.gargs(j["a"]))
        elif k == "fndef":
            t = ("fndef", self.def_id(j["d"]), self.gargs(j["a"]))
        elif k == "closure":
            t = ("closure", self.def_id(j["d"]))
        else:
            t = ("other", j.get("k", "?"), j["s"])
        self._ty_cache[i] = t
        return t

    def ty_str(self, i):
        return self.raw_tys[i]["s"]

    def span(self, sp):
        if not sp:
            return "?"
        return "%s:%d:%d" % (self.files[sp[0]], sp[1], sp[2])

    def span_expanded(self, sp):
        return bool(sp and sp[3])


def ty_str(t):
    """Human-readable rendering of a tuple type."""
    if not isinstance(t, tuple):
        return str(t)
    k = t[0]
    if k == "prim":
        return t[1]
    if k == "adt":
        name = t[1]
        short = name.split("::")[-1]
        args = [a for a in t[2] if a != ("lt",)]
        if args:
            return "%s<%s>" % (short, ", ".join(ty_str(a) for a in args))
        return short
    if k == "array":
        return "[%s; %s]" % (ty_str(t[1]), cval_str(t[2]))
    if k == "slice":
        return "[%s]" % ty_str(t[1])
    if k == "ref":
        return "&%s%s" % ("mut " if t[1] else "", ty_str(t[2]))
    if k == "ptr":
        return "*%s %s" % ("mut" if t[1] else "const", ty_str(t[2]))
    if k == "tuple":
        if len(t[1]) == 1:
            return "(%s,)" % ty_str(t[1][0])
        return "(%s)" % ", ".join(ty_str(x) for x in t[1])
    if k == "param":
        return t[1]
    if k == "alias":
        args = [a for a in t[3] if a != ("lt",)]
        nm = t[2].split("::")
        if args:
            return "<%s as %s>::%s%s" % (ty_str(args[0]), nm[-2] if len(nm) > 1 else "?", nm[-1],
                                         ("<%s>" % ", ".join(ty_str(a) for a in args[1:])) if len(args) > 1 else "")
        return t[2]
    if k == "const":
        return cval_str(t[1])
    if k == "fndef":
        return "fn " + t[1]
    if k == "closure":
        return "closure " + t[1]
    if k == "lt":
        return "'_"
    return t[-1] if isinstance(t[-1], str) else str(t)


def cval_str(c):
    if isinstance(c, tuple):
        return str(c[1])
    return str(c)


def subst(t, m):
    """Substitute params by index using mapping m: index -> type/const (tuple types)."""
    if not isinstance(t, tuple) or not m:
        return t
    k = t[0]
    if k == "param":
        r = m.get(t[2])
        if r is None:
            r = m.get(t[1])
        return r if r is not None else t
    if k == "prim" or k == "lt" or k == "other" or k == "closure":
        return t
    if k == "adt":
        return ("adt", t[1], tuple(subst(a, m) for a in t[2]))
    if k == "array":
        ln = t[2]
        if isinstance(ln, tuple) and ln[0] == "cparam":
            r = m.get(ln[1])
            if r is not None:
                ln = r[1] if (isinstance(r, tuple) and r[0] == "const") else r
        return ("array", subst(t[1], m), ln)
    if k == "slice":
        return ("slice", subst(t[1], m))
    if k == "ref" or k == "ptr":
        return (k, t[1], subst(t[2], m))
    if k == "tuple":
        return ("tuple", tuple(subst(x, m) for x in t[1]))
    if k == "alias":
        return ("alias", t[1], t[2], tuple(subst(a, m) for a in t[3]))
    if k == "fndef":
        return ("fndef", t[1], tuple(subst(a, m) for a in t[2]))
    if k == "const":
        c = t[1]
        if isinstance(c, tuple) and c[0] == "cparam":
            r = m.get(c[1])
            if r is not None:
                return r if (isinstance(r, tuple) and r[0] == "const") else ("const", r)
        return t
    return t


def has_param(t):
    if not isinstance(t, tuple) or not t:
        return False
    if t[0] == "param":
        return True
    if t[0] == "const":
        return isinstance(t[1], tuple) and t[1][0] == "cparam"
    if t[0] == "array":
        if isinstance(t[2], tuple) and t[2][0] == "cparam":
            return True
    if t[0] == "prim":
        return False
    for x in t[1:]:
        if isinstance(x, tuple):
            if x and isinstance(x[0], tuple):
                if any(has_param(y) for y in x):
                    return True
            elif has_param(x):
                return True
    return False


def strip_refs(t):
    while isinstance(t, tuple) and t[0] in ("ref", "ptr"):
        t = t[2]
    return t


class Body:
    __slots__ = ("crate", "j", "id", "n", "kind", "generics", "inputs", "output", "thir", "mir",
                 "sp", "d", "preds", "vis", "value", "ty", "unsafe")

    def __init__(self, crate, j):
        self.crate = crate
        self.j = j
        dj = crate.defj(j["d"])
        self.d = dj
        self.id = dj["id"]
        self.n = dj["n"]
        self.kind = j["kind"]
        self.generics = j.get("generics", [])
        self.inputs = j.get("inputs")
        self.output = j.get("output")
        self.thir = j.get("thir")
        self.mir = j.get("mir")
        self.sp = j.get("sp")
        self.preds = j.get("preds", [])
        self.vis = j.get("vis")
        self.value = j.get("value")
        self.ty = j.get("ty")
        self.unsafe = j.get("unsafe", False)

    def loc(self):
        return self.crate.span(self.sp)

    def __repr__(self):
        return "Body(%s)" % self.id


class Impl:
    __slots__ = ("crate", "j", "id", "self_ty", "trait", "trait_args", "generics", "preds", "items",
                 "derived", "sp", "unsafe", "negative")

    def __init__(self, crate, j):
        self.crate = crate
        self.j = j
        self.id = crate.def_id(j["d"])
        self.self_ty = crate.ty(j["self"])
        self.trait = crate.def_id(j["trait"]) if "trait" in j else None
        self.trait_args = crate.gargs(j["trait_args"]) if "trait_args" in j else ()
        self.generics = j["generics"]
        self.preds = j["preds"]
        self.derived = j.get("derived", False)
        self.sp = j.get("sp")
        self.unsafe = j.get("unsafe", False)
        self.negative = j.get("negative", False)
        self.items = {}
        for it in j["items"]:
            self.items[it["name"]] = it

    def item_id(self, name):
        it = self.items.get(name)
        return self.crate.def_id(it["d"]) if it else None

    def assoc_ty(self, name):
        it = self.items.get(name)
        if it and "ty" in it:
            return self.crate.ty(it["ty"])
        return None

    def loc(self):
        return self.crate.span(self.sp)

    def key(self):
        return "%s for %s" % ((self.trait or "<inherent>").split("::")[-1], ty_str(self.self_ty))

    def __repr__(self):
        return "Impl(%s)" % self.key()


class Universe:
    def __init__(self):
        self.crates = {}
        self.bodies = {}      # def id -> Body
        self.impls = []       # all impls
        self.impls_by_trait = {}
        self.adts = {}        # def id -> (crate, json)
        self.traits = {}
        self.aliases = {}
        self.layouts = {}     # tuple type -> layout json (with 'norm' type)
        self.defs = {}        # def id -> raw def json (first seen)
        self.closures = {}

    def load(self, path):
        c = Crate(path)
        self.crates[c.name] = c
        for dj in c.raw_defs:
            self.defs.setdefault(dj["id"], (c, dj))
        for bj in c.j["bodies"]:
            b = Body(c, bj)
            self.bodies[b.id] = b
        for ij in c.j["impls"]:
            im = Impl(c, ij)
            self.impls.append(im)
            self.impls_by_trait.setdefault(im.trait, []).append(im)
        for aj in c.j["adts"]:
            self.adts[c.def_id(aj["d"])] = (c, aj)
        for tj in c.j["traits"]:
            self.traits[c.def_id(tj["d"])] = (c, tj)
        for aj in c.j["aliases"]:
            self.aliases[c.def_id(aj["d"])] = (c, aj)
        for lj in c.j["layouts"]:
            t = c.ty(lj["ty"])
            l = dict(lj["l"])
            l["norm"] = c.ty(l["norm"])
            if "fields" in l:
                l["fields"] = [dict(f, ty=c.ty(f["ty"])) for f in l["fields"]]
            self.layouts.setdefault(t, l)
        return c

    def impl_of_item(self, def_id):
        """Impl object whose item has this def id."""
        for im in self.impls:
            for it in im.items.values():
                if im.crate.def_id(it["d"]) == def_id:
                    return im
        return None

    def body(self, def_id):
        return self.bodies.get(def_id)

    def trait_item_of(self, def_id):
        """Def id of the trait item that `def_id` implements (or def_id itself when it is a
        trait item); None when it is not an associated item of a trait."""
        ent = self.defs.get(def_id)
        if ent is None:
            return None
        c, dj = ent
        ti = dj.get("trait_item")
        if ti is not None:
            return c.raw_defs[ti]["id"]
        if dj.get("parent_kind") == "Trait":
            return def_id
        return None

    def def_json(self, def_id):
        ent = self.defs.get(def_id)
        return ent[1] if ent else None


def load_universe(paths):
    u = Universe()
    for p in paths:
        u.load(p)
    return u


# ---------------------------------------------------------------- unification
def unify(pat, t, m):
    """One-way matching of impl self type `pat` (with params) against type `t`.
    Fills m: param index -> type. Returns bool."""
    if isinstance(pat, tuple) and pat[0] == "param":
        old = m.get(pat[2])
        if old is None:
            m[pat[2]] = t
            return True
        return old == t
    if not isinstance(pat, tuple) or not isinstance(t, tuple):
        return pat == t
    if pat[0] != t[0]:
        return False
    k = pat[0]
    if k == "prim":
        return pat[1] == t[1]
    if k == "adt":
        if pat[1] != t[1] or len(pat[2]) != len(t[2]):
            return False
        return all(unify(a, b, m) for a, b in zip(pat[2], t[2]))
    if k == "array":
        if not unify(pat[1], t[1], m):
            return False
        pl = pat[2]
        if isinstance(pl, tuple) and pl[0] == "cparam":
            old = m.get(pl[1])
            if old is None:
                m[pl[1]] = ("const", t[2])
                return True
            return old == ("const", t[2])
        return pl == t[2]
    if k == "slice":
        return unify(pat[1], t[1], m)
    if k in ("ref", "ptr"):
        return pat[1] == t[1] and unify(pat[2], t[2], m)
    if k == "tuple":
        if len(pat[1]) != len(t[1]):
            return False
        return all(unify(a, b, m) for a, b in zip(pat[1], t[1]))
    if k == "const":
        pc = pat[1]
        if isinstance(pc, tuple) and pc[0] == "cparam":
            old = m.get(pc[1])
            if old is None:
                m[pc[1]] = t
                return True
            return old == t
        return pat == t
    if k == "lt":
        return True
    if k == "alias":
        if pat[2] != t[2] or len(pat[3]) != len(t[3]):
            return False
        return all(unify(a, b, m) for a, b in zip(pat[3], t[3]))
    return pat == t


def rename_params(t, suffix="'"):
    """Rename params of an impl pattern apart (index kept; name suffixed) -- used for display only."""
    return t
