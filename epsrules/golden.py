"""Golden description of format v1.1 as extracted terms (spec/format_v1_1.json)."""
import json
import os

from . import common, facts, wire, rules_wire, rules_hash, hashrec, rules_header, guards
from .facts import ty_str

SPEC = os.path.join(common.VERIF, "spec", "format_v1_1.json")


def current(u, w=None, triples=None):
    """Golden-relevant facts of the built-in part of the current tree."""
    w = w or wire.Wire(u)
    ts = triples if triples is not None else rules_wire.collect(u, w, crate_filter=("epserde",))
    out = {"writers": {}, "type_hash": {}, "align_hash": {}, "header": None, "consts": {}, "readers_leaf": {}}
    for t in ts:
        if t.crate != "epserde" or t.ser_impl is None:
            continue
        paths = []
        for p in t.paths.get("ser", []) or []:
            if p.outcome != "ok":
                continue
            paths.append({"when": p.cond_show(golden=True), "term": p.gshow()})
        # dedupe (paths differing only in irrelevant dynamic conditions)
        uniq = []
        for x in paths:
            if x not in uniq:
                uniq.append(x)
        out["writers"][t.key] = sorted(uniq, key=lambda x: (x["when"], x["term"]))
        # leaf decoders of the readers (value-level pairing, by resolved callee)
        for side in ("full", "eps"):
            for p in t.paths.get(side, []) or []:
                if p.outcome == "ok" and len(p.atoms) == 1 and p.atoms[0].k in ("B",) and not p.selectors:
                    out["readers_leaf"].setdefault(t.key, {})[side] = leaf_label(p.value)
    rep = common.Report("golden", "quick")
    recs = rules_hash.collect(u, rep)
    for r in recs:
        im = r["impl"]
        if im.crate.name != "epserde":
            continue
        key = ty_str(im.self_ty)
        ps = []
        for (conds, feeds, p) in r["paths"]:
            if p.kind != "ret":
                continue
            ps.append({"when": [guards.row_str(guards.norm_cond(c)) for c in conds], "feeds": [hashrec.feed_str(f) for f in feeds]})
        out["type_hash" if r["kind"] == "type" else "align_hash"][key] = ps
    hw = rules_header.header_writer_atoms(u, rep)
    if hw:
        out["header"] = [[ty_str(a[0]) if isinstance(a[0], tuple) else a[0], a[1] if (a[1] and not a[1].startswith("len(")) else None] for a in hw[1]]
    out["consts"] = rules_header.rules_G6(u, rep)
    # alignment units: the padding rule is part of the format
    from . import constp
    cp = constp.ConstP(u)
    out["units"] = {}
    for im in u.impls_by_trait.get(constp.MAXSIZEOF, []):
        if im.crate.name != "epserde":
            continue
        rets = cp.symbolic(im)
        if rets is None:
            continue
        unname = lambda v: ("c", v[2]) if (isinstance(v, tuple) and v and v[0] == "namedc" and isinstance(v[2], int)) else v
        out["units"][ty_str(im.self_ty)] = sorted(set(guards.label(unname(p.value)) for p in rets))
    return out


def closed_units(u, crate):
    """folded unit of every closed zero-copy type of the generated universe"""
    from . import constp
    cp = constp.ConstP(u)
    out = {}
    for k, (c, aj) in sorted(u.aliases.items()):
        if not k.startswith(crate + "::"):
            continue
        T = c.ty(aj["ty"])
        l = u.layouts.get(T)
        if l is not None:
            T = l["norm"]
        v = cp.unit(T)
        out[ty_str(T)] = v
    return out


def leaf_label(v):
    """callee chain of a leaf decoder, e.g. from_ne_bytes(read)"""
    names = []
    x = v
    depth = 0
    while isinstance(x, tuple) and x and depth < 8:
        depth += 1
        if x[0] == "call":
            names.append(x[1])
            x = x[2][0] if x[2] else None
        elif x[0] in ("unwrapped", "tryok", "cast", "un"):
            names.append(x[0] if x[0] != "un" else x[1])
            x = x[1] if x[0] != "un" else x[2]
        elif x[0] == "bin":
            names.append(x[1])
            x = x[2]
        else:
            break
    keep = [n for n in names if ("_bytes" in n and (n.startswith("from_") or n.startswith("to_"))) or n in ("swap_bytes", "from_u32", "Ne", "Eq", "from_utf8", "transmute", "from_utf8_unchecked")]
    return ">".join(keep)


def load():
    with open(SPEC) as f:
        return json.load(f)
