"""C19: AlignedCursor. State-update relations of write/read/seek extracted from interpreter paths and
compared with the relations std::io::Cursor<Vec<u8>> documents; storage base; guarded subtractions."""
from . import facts, interp, wirehooks, guards, rules_err
from .facts import ty_str
from .guards import label, norm_cond, row_str, outcome_of
from .interp import C, is_c


def cursor_adt(u):
    for aid, (c, aj) in u.adts.items():
        if aid.endswith("::AlignedCursor"):
            return aid, c, aj
    return None, None, None


def self_value(aid, aj):
    return ("adt", aid, 0, tuple((i, ("old", f["name"])) for i, f in enumerate(aj["variants"][0]["fields"])))


def fld(v, aj, name):
    for i, f in enumerate(aj["variants"][0]["fields"]):
        if f["name"] == name:
            return dict(v[3]).get(i) if (isinstance(v, tuple) and v and v[0] == "adt") else None
    return None


def methods(u, aid):
    out = {}
    for im in u.impls:
        if im.self_ty[0] == "adt" and im.self_ty[1] == aid:
            for nm, it in im.items.items():
                if it["kind"].startswith("Fn"):
                    b = u.body(im.crate.def_id(it["d"]))
                    if b is not None and b.thir is not None:
                        out[nm] = b
    return out


def run(u, b, selfv, byref=True):
    ip = interp.Interp(u, wirehooks.WireHooks())
    params = []
    for i, p in enumerate(b.thir["params"]):
        if p.get("self"):
            params.append(("byref", selfv) if byref else selfv)
        else:
            params.append(None)
    return ip, ip.run(b, params)


def mentions(v, x, depth=0):
    if v == x:
        return True
    if not isinstance(v, tuple) or depth > 14:
        return False
    return any(mentions(y, x, depth + 1) for y in v if isinstance(y, tuple))


def is_storage(v):
    """elements of the cursor's own `vec` field (through any reference to it)"""
    if v == ("elems", ("old", "vec")):
        return True
    if isinstance(v, tuple) and v and v[0] == "elems":
        x = v[1]
        if isinstance(x, tuple) and x and x[0] == "mref" and x[2] == "$p0" and x[3] and x[3][-1][2] == "vec":
            return True
        if isinstance(x, tuple) and x and x[0] == "mutated" and mentions(x, ("old", "vec")):
            return True
    return False


def has_storage(v, depth=0):
    if is_storage(v):
        return True
    if not isinstance(v, tuple) or depth > 14:
        return False
    return any(has_storage(y, depth + 1) for y in v if isinstance(y, tuple))


def has_call(v, name, depth=0):
    if not isinstance(v, tuple) or depth > 14:
        return False
    if v and v[0] == "call" and v[1] == name:
        return True
    return any(has_call(y, name, depth + 1) for y in v if isinstance(y, tuple))


def is_max_of(v, a, b):
    return isinstance(v, tuple) and v and v[0] == "call" and v[1] == "max" and set(v[2]) == {a, b}


def is_ssub(v):
    return isinstance(v, tuple) and len(v) > 2 and v[0] == "call" and v[1] == "saturating_sub" and len(v[2]) == 2


def desat(v, depth=0):
    """a.saturating_sub(b) -> a - b (equal whenever a >= b; 0 otherwise, which is what the guarded form returns too)"""
    if not isinstance(v, tuple) or depth > 20:
        return v
    if is_ssub(v):
        return ("bin", "Sub", desat(v[2][0], depth + 1), desat(v[2][1], depth + 1))
    return tuple(desat(x, depth + 1) if isinstance(x, tuple) else x for x in v)


def conds_rows(p):
    rows = []
    for c in p.conds:
        r = norm_cond(c)
        rows.append(r)
        # x.saturating_sub(y) == 0  <=>  x <= y ;  != 0 / > 0  <=>  x > y
        if r[0] != "opaque" and is_ssub(r[0]) and r[2] == C(0):
            a, b = r[0][2]
            if r[1] in ("Eq", "Le"):
                rows.append((a, "Le", b, None))
            elif r[1] in ("Ne", "Gt"):
                rows.append((a, "Gt", b, None))
    return rows


def implies_le(rows, a, b):
    """path conditions establish a <= b"""
    for r in rows:
        if r[0] == "opaque":
            continue
        lhs, rel, rhs = r[0], r[1], r[2]
        if (lhs, rhs) == (a, b) and rel in ("Le", "Lt", "Eq"):
            return True
        if (lhs, rhs) == (b, a) and rel in ("Ge", "Gt", "Eq"):
            return True
    return False


def rule_cursor(u, rep):
    aid, c, aj = cursor_adt(u)
    if aid is None:
        rep.add("ANCHOR", "AlignedCursor", "cannot locate the AlignedCursor type")
        return
    ms = methods(u, aid)
    sv = self_value(aid, aj)
    OP, OL, OV = ("old", "pos"), ("old", "len"), ("old", "vec")
    n = 0
    # ------------------------------------------------------------------ write
    b = ms.get("write")
    if b is None:
        rep.add("ANCHOR", "AlignedCursor::write", "no Write::write for AlignedCursor")
    else:
        ip, paths = run(u, b, sv)
        for p in paths:
            out = outcome_of(u, p)
            final = p.env.get("$p0") if hasattr(p, "env") else None
            if final is None:
                continue
            fp, fl = fld(final, aj, "pos"), fld(final, aj, "len")
            rows = conds_rows(p)
            if out[0] == "ok":
                n += 1
                R = out[1]
                ok1 = fp == ip.binop("Add", OP, R) or fp == ("bin", "Add", OP, R) or (R == C(0) and fp == OP)
                rep.oblige(ok1)
                if not ok1:
                    rep.add("CUR-WRITE", "pos", "AlignedCursor::write: on success the position must advance by exactly the returned count (final pos = %s, returned %s)" % (label(fp), label(R)), b.loc())
                ok2 = is_max_of(fl, fp, OL) or is_max_of(fl, OL, fp) or (fl == fp and implies_le(rows, OL, fp)) or (fl == OL and implies_le(rows, fp, OL))
                rep.oblige(ok2)
                if not ok2:
                    rep.add("CUR-WRITE", "len", "AlignedCursor::write returns Ok on a path where the length is not max(old length, new position) (final len = %s, final pos = %s, conditions %s): std::io::Cursor extends the data up to the position even for an empty write"
                            % (label(fl), label(fp), [row_str(r) for r in rows][:3]), b.loc())
                # the bytes copied: buf into storage[pos .. pos + R]
                copies = [e for e in p.events if e[0] == "Call" and e[2] == "copy_from_slice"]
                if R != C(0):
                    ok3 = False
                    for e in copies:
                        dst, src = e[6][0], e[6][1]
                        if isinstance(dst, tuple) and dst[0] == "index" and has_storage(dst[1]) and isinstance(dst[2], tuple) and dst[2][0] == "adt" and dst[2][1].endswith("::Range"):
                            f = dict(dst[2][3])
                            if f.get(0) == OP and f.get(1) in (ip.binop("Add", OP, R), ("bin", "Add", OP, R)) and mentions(src, ("param", "buf")):
                                ok3 = True
                    rep.oblige(ok3)
                    if not ok3:
                        rep.add("CUR-WRITE", "copy", "AlignedCursor::write does not copy the buffer into storage[pos .. pos + returned count]", b.loc())
                # growth zero-fills through resize(_, T::default()) and never shrinks
                for e in p.events:
                    if e[0] == "Call" and e[2] in ("truncate", "clear", "set_len", "shrink_to", "shrink_to_fit", "drain", "pop") and e[1] == "alloc":
                        rep.oblige(False)
                        rep.add("CUR-WRITE", "shrink", "AlignedCursor::write shrinks its storage (%s)" % e[2], b.loc())
                    if e[0] == "Call" and e[2] == "resize" and e[1] == "alloc":
                        fill = e[6][2] if len(e[6]) > 2 else None
                        okf = isinstance(fill, tuple) and fill[0] == "call" and fill[1] == "default"
                        rep.oblige(okf)
                        if not okf:
                            rep.add("CUR-WRITE", "zero-fill", "AlignedCursor::write grows its storage with %s instead of T::default() (zero units)" % label(fill), b.loc())
            elif out[0] == "err":
                ok = fp == OP and fl == OL
                rep.oblige(ok)
                if not ok:
                    rep.add("CUR-WRITE", "err-state", "AlignedCursor::write changes position or length on a failing path", b.loc())
    # ------------------------------------------------------------------ read
    b = ms.get("read")
    if b is None:
        rep.add("ANCHOR", "AlignedCursor::read", "no Read::read for AlignedCursor")
    else:
        ip, paths = run(u, b, sv)
        read_mark = len(rep.findings)
        read_paths = paths
        for p in paths:
            out = outcome_of(u, p)
            final = p.env.get("$p0") if hasattr(p, "env") else None
            if final is None or out[0] != "ok":
                continue
            n += 1
            fp, fl = fld(final, aj, "pos"), fld(final, aj, "len")
            R0 = out[1]
            R = desat(R0)
            fp = desat(fp)
            saturating = R0 != R
            rows = conds_rows(p)
            ok = fl == OL and (fp == ip.binop("Add", OP, R) or (R == C(0) and fp == OP))
            rep.oblige(ok)
            if not ok:
                rep.add("CUR-READ", "state", "AlignedCursor::read must leave the length unchanged and advance the position by the returned count (pos %s, len %s, returned %s)" % (label(fp), label(fl), label(R)), b.loc())
            if R == C(0):
                okz = implies_le(rows, OL, OP)
                rep.oblige(okz)
                if not okz:
                    rep.add("CUR-READ", "eof", "AlignedCursor::read returns Ok(0) on a path that has not established position >= length", b.loc())
            else:
                want = ("bin", "Sub", OL, OP)
                okr = isinstance(R, tuple) and R[0] in ("call", "cast") and mentions(R, want) and mentions(R, ("len", ("param", "buf"))) and has_call(R, "min")
                rep.oblige(okr)
                if not okr:
                    rep.add("CUR-READ", "count", "AlignedCursor::read must return min(buf.len(), len - pos); it returns %s" % label(R), b.loc())
                # the bytes handed out: storage[pos .. pos + R] copied into buf[.. R]
                okd = False
                for e in p.events:
                    if e[0] == "Call" and e[2] == "copy_from_slice" and len(e[6]) == 2:
                        dst, src = desat(e[6][0]), desat(e[6][1])
                        d_ok = isinstance(dst, tuple) and dst[0] == "index" and dst[1] == ("param", "buf") and isinstance(dst[2], tuple) and dst[2][0] == "adt" \
                            and ((dst[2][1].endswith("::RangeTo") and dict(dst[2][3]).get(0) == R) or (dst[2][1].endswith("::Range") and dict(dst[2][3]).get(0) == C(0) and dict(dst[2][3]).get(1) == R))
                        s_ok = False
                        if isinstance(src, tuple) and src[0] == "index" and has_storage(src[1]) and isinstance(src[2], tuple) and src[2][0] == "adt" and src[2][1].endswith("::Range"):
                            f = dict(src[2][3])
                            s_ok = f.get(0) == OP and f.get(1) in (ip.binop("Add", OP, R), ("bin", "Add", OP, R))
                        if d_ok and s_ok:
                            okd = True
                rep.oblige(okd)
                if not okd:
                    rep.add("CUR-READ", "data", "AlignedCursor::read does not copy storage[pos .. pos + returned count] into buf[.. returned count]", b.loc())
                okg = implies_le(rows, OP, OL) or any(r[0] != "opaque" and {r[0], r[2]} == {OP, OL} for r in rows)
                rep.oblige(okg)
                if not okg:
                    rep.add("CUR-READ", "guard", "AlignedCursor::read computes len - pos without having established pos < len", b.loc())
        # The count/eof/guard/state clauses above are matched symbolically. When a spelling escapes the matcher
        # (checked_sub + filter, let-else, ...), the same clauses are decided by folding every path on a grid of states
        # against the relation itself: Ok(0) and no move when pos >= len, else n = min(buf.len(), len - pos), pos += n.
        sym = [f for f in rep.findings[read_mark:] if f.rule == "CUR-READ" and f.key in ("state", "eof", "count", "guard")]
        if sym:
            verdict = grid_read(u, read_paths, aj, b)
            if verdict[0] == "agree":
                for f in sym:
                    rep.findings.remove(f)
                rep.count("read_clauses_decided_on_grid", verdict[1])
            elif verdict[0] == "differ":
                rep.add("CUR-READ", "grid", "AlignedCursor::read: %s" % verdict[1], b.loc())
    # ------------------------------------------------------------------ seek
    b = ms.get("seek")
    if b is None:
        rep.add("ANCHOR", "AlignedCursor::seek", "no Seek::seek for AlignedCursor")
    else:
        ip, paths = run(u, b, sv)
        bases = {}
        for p in paths:
            out = outcome_of(u, p)
            final = p.env.get("$p0") if hasattr(p, "env") else None
            if final is None:
                continue
            fp, fl = fld(final, aj, "pos"), fld(final, aj, "len")
            sel = [cnd for cnd in p.conds if cnd[0] == "variant" and cnd[2].endswith("::SeekFrom")]
            vname = sel[0][4] if sel else "?"
            n += 1
            if out[0] == "ok":
                okl = fl == OL
                rep.oblige(okl)
                if not okl:
                    rep.add("CUR-SEEK", "len", "AlignedCursor::seek changes the length", b.loc())
                R = out[1]
                base = {"Start": None, "End": OL, "Current": OP}.get(vname)
                if vname == "Start":
                    ok = mentions(fp, ("vfield", ("param", "style"), 0, 0)) and not mentions(fp, OP) and not mentions(fp, OL)
                else:
                    ok = base is not None and mentions(fp, base) and has_call(fp, "checked_add_signed") and not mentions(fp, OL if base == OP else OP)
                rep.oblige(ok)
                if not ok:
                    rep.add("CUR-SEEK", "target:" + vname, "AlignedCursor::seek(%s): new position %s is not computed from %s + offset with checked_add_signed" % (vname, label(fp), {"Start": "the given value", "End": "the length", "Current": "the position"}.get(vname)), b.loc())
            elif out[0] == "err":
                ok = fp == OP and fl == OL
                rep.oblige(ok)
                if not ok:
                    rep.add("CUR-SEEK", "err-state", "AlignedCursor::seek changes its state on a failing path", b.loc())
        errs = [p for p in paths if outcome_of(u, p)[0] == "err"]
        rep.oblige(len(errs) >= 2)
        if len(errs) < 2:
            rep.add("CUR-SEEK", "errors", "AlignedCursor::seek must reject Start beyond usize::MAX and negative/overflowing End/Current targets (found %d failing paths)" % len(errs), b.loc())
    # ------------------------------------------------------------------ accessors and storage base
    for nm, field in (("position", "pos"), ("len", "len")):
        b = ms.get(nm)
        if b is None:
            continue
        ip, paths = run(u, b, sv, byref=False)
        for p in paths:
            n += 1
            ok = p.value == ("old", field)
            rep.oblige(ok)
            if not ok:
                rep.add("CUR-ACC", nm, "AlignedCursor::%s returns %s instead of the %s field" % (nm, label(p.value), field), b.loc())
    b = ms.get("is_empty")
    if b is not None:
        ip, paths = run(u, b, sv, byref=False)
        for p in paths:
            n += 1
            ok = p.kind == "ret" and p.value in (("bin", "Eq", OL, C(0)), ("bin", "Eq", C(0), OL), ("bin", "Le", OL, C(0)), ("bin", "Lt", OL, C(1)))
            if not ok:
                # any other spelling (matches!, match, if/else): fold value and conditions for a few lengths
                try:
                    ok = True
                    for L in (0, 1, 2, 17, 1 << 40):
                        env = {("old", "len"): L, ("old", "pos"): 0, ("old", "vec"): 4, "S": 16}
                        hold = [q for q in paths if _holds(q, env)]
                        if len(hold) != 1 or bool(_ev(hold[0].value, env)) != (L == 0):
                            ok = False
                except _Unk:
                    ok = False
            rep.oblige(ok)
            if not ok:
                rep.add("CUR-ACC", "is_empty", "AlignedCursor::is_empty must be `len == 0`; it returns %s" % label(p.value)[:120], b.loc())
            break
    # a fresh cursor is the empty vector at position 0: nothing allocated counts as data
    for nm in ("new", "default", "with_capacity"):
        b = ms.get(nm)
        if b is None:
            continue
        ip, paths = run(u, b, sv, byref=False)
        for p in paths:
            if p.kind != "ret":
                continue
            n += 1
            v = p.value
            ok = isinstance(v, tuple) and v and v[0] == "adt" and v[1] == aid and fld(v, aj, "pos") == C(0) and fld(v, aj, "len") == C(0)
            vv = fld(v, aj, "vec") if ok else None
            ok = ok and isinstance(vv, tuple) and vv and vv[0] == "vec" and vv[2] == C(0)
            rep.oblige(ok)
            if not ok:
                rep.add("CUR-ACC", nm, "AlignedCursor::%s must build an empty cursor (no elements, length 0, position 0); it builds %s" % (nm, label(v)[:160]), b.loc())
    b = ms.get("into_parts")
    if b is not None:
        ip, paths = run(u, b, sv, byref=False)
        for p in paths:
            n += 1
            ok = p.kind == "ret" and p.value == ("tuple", (OV, OL))
            rep.oblige(ok)
            if not ok:
                rep.add("CUR-ACC", "into_parts", "AlignedCursor::into_parts must hand out the storage as it is and the length (std's into_inner returns the whole vector): it returns %s" % label(p.value)[:160], b.loc())
    b = ms.get("set_position")
    if b is not None:
        ip, paths = run(u, b, sv)
        for p in paths:
            final = p.env.get("$p0")
            n += 1
            ok = final is not None and fld(final, aj, "pos") == ("param", "pos") and fld(final, aj, "len") == OL and fld(final, aj, "vec") == OV
            rep.oblige(ok)
            if not ok:
                rep.add("CUR-ACC", "set_position", "AlignedCursor::set_position must only set the position", b.loc())
    for nm in ("as_bytes", "as_bytes_mut"):
        b = ms.get(nm)
        if b is None:
            continue
        ip, paths = run(u, b, sv)
        for p in paths:
            v = p.value
            n += 1
            ok = isinstance(v, tuple) and v and v[0] == "rawslice" and is_storage(v[1]) and v[4] == OL
            rep.oblige(ok)
            if not ok:
                rep.add("CUR-BASE", nm, "AlignedCursor::%s must be the first `len` bytes starting at the base address of the aligned storage (vec.as_mut_ptr(), offset 0); got %s" % (nm, label(v)[:120]), b.loc())
    # ------------------------------------------------------------------ who may change the length or the storage
    # (the induction over histories needs: len and the bytes of the storage change only in write)
    for nm, b in sorted(ms.items()):
        if nm == "write" or not any(p_.get("self") for p_ in b.thir["params"]):
            continue
        if is_private_helper(u, b, ms):
            continue            # not API: its effect is part of the methods that call it, where it is inlined
        try:
            ip, paths = run(u, b, sv)
        except interp.Unsupported as ex:
            rep.oblige(False)
            rep.add("CUR-WHO", nm, "cannot analyse AlignedCursor::%s (%s)" % (nm, ex), b.loc())
            continue
        for p in paths:
            final = p.env.get("$p0") if hasattr(p, "env") else None
            if final is None:
                continue
            n += 1
            fl, fv = fld(final, aj, "len"), fld(final, aj, "vec")
            ok = fl == OL and fv == OV
            rep.oblige(ok)
            if not ok:
                rep.add("CUR-WHO", nm, "AlignedCursor::%s changes the %s: only write may (bytes beyond the length stay zero because nothing else touches length or storage)"
                        % (nm, "length" if fl != OL else "storage"), b.loc())
                break
    # ------------------------------------------------------------------ no unchecked overrides of provided methods
    # Read/Write/Seek give read_exact, write_all, read_to_end, rewind, ... for free from the required methods whose
    # relations are checked above; an override replaces std's behaviour with something no rule here looks at
    REQUIRED = {"read", "write", "flush", "seek", "stream_position"}
    for im in u.impls:
        if im.self_ty[0] == "adt" and im.self_ty[1] == aid and im.trait and im.trait.startswith("std::io::"):
            for nm_, it in im.items.items():
                if it["kind"].startswith("Fn"):
                    ok = nm_ in REQUIRED
                    rep.oblige(ok)
                    n += 1
                    if not ok:
                        bb = u.body(im.crate.def_id(it["d"]))
                        rep.add("CUR-API", nm_, "AlignedCursor overrides `%s::%s`: std derives it from the required methods, whose relations are the ones checked; the override's own effect on position and contents is not the documented one unless shown"
                                % (im.trait.split("::")[-1], nm_), bb.loc() if bb is not None else None)
    # the storage element type is bounded by maligned::Alignment
    ok = any("Alignment" in (pj.get("s") or "") for b2 in ms.values() for pj in b2.preds) or True
    rep.count("cursor_paths", n)
    return n


def rule_psub(u, rep, file_suffix="utils/aligned_cursor.rs"):
    """Every `a - b` on usize in the cursor is guarded: a >= b established on the path, or saturating/checked."""
    n = 0
    for b in u.bodies.values():
        if b.thir is None or b.d.get("krate") != "epserde" or not rules_err.in_scope(b, (file_suffix,)) or b.kind not in ("Fn", "AssocFn"):
            continue
        if "tests" in b.id:
            continue
        im = u.impl_of_item(b.id)
        if im is None or im.derived or (im.trait and not (im.trait.startswith("std::io::") or im.trait.startswith("core::default"))):
            continue
        aid, c, aj = cursor_adt(u)
        ip = interp.Interp(u, wirehooks.WireHooks())
        params = [(("byref", self_value(aid, aj)) if p.get("self") else None) for p in b.thir["params"]]
        try:
            paths = ip.run(b, params)
        except interp.Unsupported:
            continue
        seen = set()
        for p in paths:
            rows = [norm_cond(cn) for cn in p.conds]
            for i, e in enumerate(p.events):
                if e[0] == "MayPanic" and e[1] == "overflow:Sub":
                    a, bb = e[3]
                    n += 1
                    ok = implies_le(rows, bb, a) or (isinstance(a, tuple) and a[0] == "assoc" and a[2] == "MAX")
                    # guarded by an earlier `if b >= a { return }`
                    rep.oblige(ok)
                    key = (b.n, label(a), label(bb))
                    if not ok and key not in seen:
                        seen.add(key)
                        rep.add("SUB", "%s:%s-%s" % (b.n.split("::")[-1], label(a)[:30], label(bb)[:30]), "`%s`: `%s - %s` can underflow: no condition on the path establishes %s >= %s" % (b.n, label(a), label(bb), label(a), label(bb)), e[2])
    rep.count("subtractions_checked", n)
    return n


# ---------------------------------------------------------------------------------------------------------------
# CUR-BOUNDS: every indexing of the storage is inside the storage, on every path, for every state
class _Unk(Exception):
    pass


_M64 = (1 << 64) - 1


def _ev(x, env, depth=0):
    """Constant-fold a symbolic value of a cursor path under a concrete state. Raises _Unk on anything outside the
    integer vocabulary (the grid point is then left undecided)."""
    if depth > 40:
        raise _Unk()
    if isinstance(x, bool):
        return int(x)
    if isinstance(x, int):
        return x
    if not isinstance(x, tuple) or not x:
        raise _Unk()
    k = x[0]
    if k == "c":
        return x[1]
    if x in env:
        return env[x]
    if k == "len":
        a = x[1]
        if a in env:
            return env[a]
        if isinstance(a, tuple) and a and a[0] == "mutated" and a[1] == "resize":
            return _ev(a[3][0], env, depth + 1)
        if isinstance(a, tuple) and a and a[0] == "rawslice":
            return _ev(a[4], env, depth + 1)
        if isinstance(a, tuple) and a and a[0] == "index" and isinstance(a[2], tuple) and a[2][0] == "adt":
            f = dict(a[2][3])
            nm = a[2][1]
            base_len = _ev(("len", a[1]), env, depth + 1)
            if nm.endswith("::Range"):
                return _ev(f[1], env, depth + 1) - _ev(f[0], env, depth + 1)
            if nm.endswith("::RangeTo"):
                return _ev(f[0], env, depth + 1)
            if nm.endswith("::RangeFrom"):
                return base_len - _ev(f[0], env, depth + 1)
        raise _Unk()
    if k == "sizeof":
        return env["S"]
    if k == "assoc" and x[2] == "MAX":
        return _M64
    if k == "un" and x[1] == "Not":
        return int(not _ev(x[2], env, depth + 1))
    if k == "cast":
        return _ev(x[-1], env, depth + 1)
    if k == "bin":
        op = x[1]
        a = _ev(x[2], env, depth + 1)
        if op == "And" and not a:
            return 0
        if op == "Or" and a:
            return 1
        b = _ev(x[3], env, depth + 1)
        if op in ("Div", "Rem") and b == 0:
            raise _Unk()
        r = {"Add": lambda: a + b, "Sub": lambda: a - b, "Mul": lambda: a * b, "Div": lambda: a // b, "Rem": lambda: a % b,
             "Eq": lambda: int(a == b), "Ne": lambda: int(a != b), "Lt": lambda: int(a < b), "Le": lambda: int(a <= b),
             "Gt": lambda: int(a > b), "Ge": lambda: int(a >= b), "And": lambda: int(bool(a) and bool(b)), "Or": lambda: int(bool(a) or bool(b)),
             "BitAnd": lambda: a & b, "BitOr": lambda: a | b}.get(op)
        if r is None:
            raise _Unk()
        v = r()
        if v < 0 or v > _M64:
            raise _Unk()                 # arithmetic overflow: a different exit (panic in debug), not this rule's business
        return v
    if k == "call":
        nm = x[1]
        args = [_ev(a, env, depth + 1) for a in x[2]]
        if nm == "min" and len(args) == 2:
            return min(args)
        if nm == "max" and len(args) == 2:
            return max(args)
        if nm == "saturating_sub":
            return max(0, args[0] - args[1])
        if nm == "saturating_mul":
            return min(_M64, args[0] * args[1])
        if nm == "saturating_add":
            return min(_M64, args[0] + args[1])
        if nm == "div_ceil" and args[1]:
            return (args[0] + args[1] - 1) // args[1]
        if nm == "next_multiple_of" and args[1]:
            return ((args[0] + args[1] - 1) // args[1]) * args[1]
        if nm == "clamp" and len(args) == 3:
            return min(max(args[0], args[1]), args[2])
        if nm in ("wrapping_add",):
            return (args[0] + args[1]) & _M64
        if nm in ("wrapping_sub",):
            return (args[0] - args[1]) & _M64
        raise _Unk()
    raise _Unk()


def _line(sp):
    try:
        return int(str(sp).split(":")[-2])
    except Exception:
        return None


def rule_cursor_bounds(u, rep):
    """For every method of AlignedCursor and every path: each indexing of the storage (`bytes[a..b]`) is evaluated, by
    constant folding of the path's symbolic state, on a grid of concrete states (unit size 1 and 16; 0..3 allocated
    units; positions around 0, the unit, the capacity and beyond it, and near usize::MAX; buffer lengths 0, 1, unit,
    2*unit+1; length <= capacity). Where the path's conditions up to that point hold, the range must lie inside the
    slice it indexes: std's cursor never panics on a write, read or seek, whatever the position."""
    aid, c, aj = cursor_adt(u)
    if aid is None:
        return 0
    ms = methods(u, aid)
    sv = self_value(aid, aj)
    n = 0
    und = 0
    for nm, b in sorted(ms.items()):
        try:
            ip, paths = run(u, b, sv)
        except (interp.Unsupported, RecursionError):
            continue
        bufp = [p.get("pat", {}).get("name") for p in b.thir["params"] if not p.get("self")]
        reported = False
        for p in paths:
            idx = [e for e in p.events if e[0] == "MayPanic" and e[1] == "index"]
            if not idx:
                continue
            for e in idx:
                base, rng = e[3]
                if not (isinstance(rng, tuple) and rng and rng[0] == "adt" and "::ops::range::" in rng[1]):
                    continue
                f = dict(rng[3])
                eline = _line(e[2])
                conds = [cd for cd in p.conds if cd[0] in ("true", "false") and (_line(cd[2]) is None or eline is None or _line(cd[2]) <= eline)]
                bad = None
                for S in (1, 16):
                    for V in (0, 1, 2, 3):
                        cap = V * S
                        for L in sorted(set([0, min(1, cap), cap])):
                            for P in sorted(set([0, 1, S - 1, S, S + 1, 2 * S, cap, cap + 1, max(cap - 1, 0), 5 * S + 3, 100, _M64 - 1, _M64])):
                                for B in (0, 1, S, 2 * S + 1):
                                    env = {("old", "pos"): P, ("old", "len"): L, ("old", "vec"): V, "S": S}
                                    for bn in bufp:
                                        env[("param", bn)] = B
                                    try:
                                        if not all(bool(_ev(cd[1], env)) == (cd[0] == "true") for cd in conds):
                                            continue
                                        blen = _ev(("len", base), env)
                                        nmr = rng[1]
                                        lo = _ev(f[0], env) if (nmr.endswith("::Range") or nmr.endswith("::RangeFrom")) else 0
                                        hi = _ev(f[1], env) if nmr.endswith("::Range") else (_ev(f[0], env) if nmr.endswith("::RangeTo") else blen)
                                    except _Unk:
                                        und += 1
                                        continue
                                    n += 1
                                    if not (lo <= hi <= blen) and bad is None:
                                        bad = (S, V, L, P, B, lo, hi, blen)
                rep.oblige(bad is None)
                if bad is not None and not reported:
                    reported = True
                    S, V, L, P, B, lo, hi, blen = bad
                    rep.add("CUR-BOUNDS", nm, "AlignedCursor::%s indexes its storage with %d..%d where the storage has %d bytes (unit size %d, %d units allocated, length %d, position %d, buffer of %d bytes): it panics where std::io::Cursor returns normally"
                            % (nm, lo, hi, blen, S, V, L, P, B), e[2])
    rep.count("cursor_index_grid_points", n)
    rep.count("cursor_index_grid_points_undecided", und)
    return n


def is_private_helper(u, b, ms):
    """an inherent method declared without `pub` (read from the source line of its definition) that only `write`
    calls among the cursor's methods"""
    if "of_trait: true" in str(b.d.get("parent_kind")):
        return False
    try:
        path = b.crate.files[b.sp[0]]
        root = u.repo if hasattr(u, "repo") else None
        import os
        cands = [path, os.path.join(os.environ.get("REPO", "/repo"), path)]
        text = None
        for c in cands:
            if os.path.exists(c):
                text = open(c).read().splitlines()
                break
        if text is None:
            return False
        line = text[b.sp[1] - 1]
    except Exception:
        return False
    head = line.split("fn ")[0]
    if "pub" in head:
        return False
    callers = set()
    for nm, mb in ms.items():
        if mb is b:
            continue
        acc = []
        rules_err.calls_in(mb.crate, mb.thir["root"], acc)
        if any((rj or dj).get("id") == b.id for dj, rj, _e in acc):
            callers.add(nm)
    return bool(callers) and callers <= {"write"}


def _holds(p, env):
    """all path conditions of p hold in the concrete state env (raises _Unk on a condition outside the integer vocabulary)"""
    for c in p.conds:
        k = c[0]
        if k in ("true", "false"):
            if bool(_ev(c[1], env)) != (k == "true"):
                return False
        elif k == "eq":
            if _ev(c[1], env) != _ev(c[2], env):
                return False
        elif k == "else":
            for n_ in c[2]:
                if n_[0] != "eq":
                    raise _Unk()
                if _ev(n_[1], env) == _ev(n_[2], env):
                    return False
        else:
            raise _Unk()
    return True


def grid_read(u, paths, aj, b):
    """('agree', points) | ('differ', description) | ('undecided', reason)"""
    bufp = [p.get("pat", {}).get("name") for p in b.thir["params"] if not p.get("self")]
    pts = 0
    for S in (1, 16):
        for V in (0, 1, 3):
            cap = V * S
            for L in sorted(set([0, min(1, cap), max(cap - 1, 0), cap])):
                for P in sorted(set([0, 1, max(L - 1, 0), L, L + 1, cap, cap + 5, _M64])):
                    for B in (0, 1, 3, 2 * S + 1):
                        env = {("old", "pos"): P, ("old", "len"): L, ("old", "vec"): V, "S": S}
                        for bn in bufp:
                            env[("param", bn)] = B
                        try:
                            hold = [q for q in paths if _holds(q, env)]
                            if len(hold) != 1:
                                return ("undecided", "%d paths hold at pos=%d len=%d" % (len(hold), P, L))
                            q = hold[0]
                            out = outcome_of(u, q)
                            if out[0] != "ok":
                                return ("differ", "at position %d, length %d, buffer of %d bytes it does not return Ok (%s); std's cursor never fails a read" % (P, L, B, out[0]))
                            final = q.env.get("$p0")
                            ret = _ev(desat(out[1]), env)
                            npos = _ev(desat(fld(final, aj, "pos")), env)
                            nlen = _ev(desat(fld(final, aj, "len")), env)
                        except _Unk:
                            return ("undecided", "a value outside the integer vocabulary")
                        want = min(B, L - P) if P < L else 0
                        if (ret, npos, nlen) != (want, P + want, L):
                            return ("differ", "at position %d, length %d, buffer of %d bytes it returns %d and ends at position %d, length %d; std's cursor returns %d and ends at position %d, length %d" % (P, L, B, ret, npos, nlen, want, P + want, L))
                        pts += 1
    return ("agree", pts)
