"""CONSTP: constant propagation of MaxSizeOf::max_size_of over closed types using rustc's layouts."""
from . import facts, interp
from .facts import ty_str, unify
from .interp import C, is_c, short

MAXSIZEOF = "epserde::traits::type_info::MaxSizeOf"


class UnitHooks:
    def __init__(self, cp):
        self.cp = cp

    def call(self, ip, frame, st, e, callee, dj, targs, resolved, rargs, args):
        ti = ip.u.trait_item_of(resolved or callee) or callee
        if short(ti) == "MaxSizeOf::max_size_of" and targs:
            T = targs[0]
            if not facts.has_param(T):
                v = self.cp.unit(T)
                if v is not None:
                    return [(st, C(v))]
            return [(st, ("unit", T))]
        return None


class ConstP:
    def __init__(self, u):
        self.u = u
        self.cache = {}
        self.errors = {}

    def impl_for(self, T):
        for im in self.u.impls_by_trait.get(MAXSIZEOF, []):
            m = {}
            if unify(im.self_ty, T, m):
                return im, m
        return None, None

    def unit(self, T):
        """Folded value of <T as MaxSizeOf>::max_size_of(), or None when it cannot be folded."""
        if T in self.cache:
            return self.cache[T]
        self.cache[T] = None
        im, m = self.impl_for(T)
        if im is None:
            self.errors[T] = "no MaxSizeOf impl"
            return None
        b = self.u.body(im.item_id("max_size_of"))
        if b is None:
            self.errors[T] = "no body"
            return None
        gens = b.generics or im.generics
        targs = []
        for g in gens:
            a = m.get(g["index"])
            if a is None and g["kind"] == "const":
                a = m.get(g["name"])
            targs.append(a if a is not None else ("lt",) if g["kind"] == "lifetime" else ("param", g["name"], g["index"]))
        ip = interp.Interp(self.u, UnitHooks(self))
        try:
            ps = ip.run(b, [], tuple(targs))
        except (interp.Unsupported, RecursionError) as ex:
            self.errors[T] = str(ex)
            return None
        rets = [p for p in ps if p.kind == "ret"]
        if len(rets) == 1 and isinstance(rets[0].value, tuple) and rets[0].value and rets[0].value[0] == "namedc" and isinstance(rets[0].value[2], int):
            rets[0].value = interp.C(rets[0].value[2])          # a named constant returned as such: its value
        if len(rets) == 1 and is_c(rets[0].value):
            self.cache[T] = rets[0].value[1]
            return self.cache[T]
        self.errors[T] = "not constant: %d paths, value %s" % (len(rets), str(rets[0].value)[:80] if rets else None)
        return None

    def symbolic(self, im):
        """Return values of max_size_of of a (generic) impl over all paths."""
        b = self.u.body(im.item_id("max_size_of"))
        if b is None:
            return None
        ip = interp.Interp(self.u, UnitHooks(self))
        try:
            ps = ip.run(b, [])
        except (interp.Unsupported, RecursionError):
            return None
        return [p for p in ps if p.kind == "ret"]


def components(u, T):
    """Types stored inside a value of T (fields, elements)."""
    if T[0] == "array":
        return [T[1]]
    if T[0] == "tuple":
        return list(T[1])
    if T[0] == "adt":
        ent = u.adts.get(T[1])
        if ent is not None:
            c, aj = ent
            m = {}
            for g, a in zip(aj["generics"], T[2]):
                m[g["index"]] = a
                if g["kind"] == "const":
                    m[g["name"]] = a
            out = []
            for v in aj["variants"]:
                for f in v["fields"]:
                    out.append(facts.subst(c.ty(f["ty"]), m))
            return out
        # std ranges: payload = generic args
        if T[1].startswith("core::ops::range::") or T[1] == "core::marker::PhantomData":
            if T[1] == "core::marker::PhantomData":
                return []
            return [a for a in T[2] if a != ("lt",)]
    return []
