"""P-ERR on THIR: every call that returns a Result with one of the crate's error types is
propagated (`?`, return/tail position), matched, or transformed by map/map_err/and_then into
something that is; it is never discarded (expression statement, `let _`), tested and forgotten
(`is_ok`, `is_err`, `ok`, `err`) or defaulted (`unwrap_or*`).

S-WHO: who may call / construct.
"""
from . import facts
from .facts import ty_str

ERR_TYPES = ("epserde::deser::Error", "epserde::ser::Error", "std::io::error::Error", "anyhow::Error", "mmap_rs::error::Error")
RESULT = "core::result::Result"

PASS_THROUGH = {"map_err", "map", "and_then", "or_else", "context", "with_context", "inspect_err", "branch", "from_residual", "into", "from"}
SWALLOW = {"ok", "is_ok", "is_err", "err", "unwrap_or", "unwrap_or_default", "unwrap_or_else", "iter", "is_ok_and", "is_err_and", "unwrap_unchecked", "map_or", "map_or_else",
           "drop", "forget", "black_box"}
PANICKY = {"unwrap", "expect"}


_ERR_FILTER = [None]


def is_err_result(t):
    ok = isinstance(t, tuple) and len(t) >= 3 and t[0] == "adt" and t[1] == RESULT and len(t[2]) >= 2 and isinstance(t[2][1], tuple) and len(t[2][1]) >= 2 and t[2][1][0] == "adt" and t[2][1][1] in ERR_TYPES
    if ok and _ERR_FILTER[0] is not None:
        return t[2][1][1] in _ERR_FILTER[0]
    return ok


SER_ERRS = ("epserde::ser::Error", "std::io::error::Error", "anyhow::Error", "mmap_rs::error::Error")
DESER_ERRS = ("epserde::deser::Error", "std::io::error::Error", "anyhow::Error", "mmap_rs::error::Error")


def walk(crate, e, parent, sites, ctx):
    """Collect (call expr, context) for every Result-returning call."""
    if not isinstance(e, dict):
        return
    k = e.get("k")
    if k == "Call" and "ty" in e:
        t = crate.ty(e["ty"])
        if is_err_result(t) and "d" in e.get("f", {}):
            sites.append((e, parent, ctx))
    # recurse with context
    if k == "Block":
        b = e["b"]
        for st in b["stmts"]:
            if st["k"] == "Expr":
                walk(crate, st["e"], ("stmt",), sites, ctx)
            else:
                if "init" in st:
                    pat = st["pat"]
                    c = ("let_wild",) if pat["k"] == "Wild" else ("let", pat.get("name"))
                    walk(crate, st["init"], c, sites, ctx)
                if "else" in st:
                    walk_block(crate, st["else"], sites, ctx)
        if "expr" in b:
            walk(crate, b["expr"], ("tail", parent), sites, ctx)
        return
    if k == "Call":
        nm = crate.defj(e["f"]["d"]).get("name") if "d" in e.get("f", {}) else None
        for i, a in enumerate(e["args"]):
            walk(crate, a, ("arg", nm, i, parent), sites, ctx)
        if "fun" in e:
            walk(crate, e["fun"], ("fun",), sites, ctx)
        return
    if k == "Match":
        src = e["src"]
        walk(crate, e["scrut"], ("try",) if src.startswith("TryDesugar") else ("scrut",), sites, ctx)
        for a in e["arms"]:
            walk(crate, a["body"], ("arm", parent), sites, ctx)
            if "guard" in a:
                walk(crate, a["guard"], ("cond",), sites, ctx)
        return
    if k == "If":
        walk(crate, e["cond"], ("cond",), sites, ctx)
        walk(crate, e["then"], ("arm", parent), sites, ctx)
        if "else" in e:
            walk(crate, e["else"], ("arm", parent), sites, ctx)
        return
    if k == "LetExpr":
        walk(crate, e["e"], ("scrut",), sites, ctx)
        return
    if k == "Return":
        if "e" in e:
            walk(crate, e["e"], ("return",), sites, ctx)
        return
    if k in ("Use", "NeverToAny", "Borrow", "Deref", "Coerce", "Cast"):
        walk(crate, e["e"], parent, sites, ctx)
        return
    if k == "Loop":
        walk(crate, e["body"], ("stmt",), sites, ctx)
        return
    if k == "Assign":
        walk(crate, e["r"], ("assign",), sites, ctx)
        walk(crate, e["l"], ("place",), sites, ctx)
        return
    if k == "Adt":
        for f in e["fields"]:
            walk(crate, f["e"], ("field", parent), sites, ctx)
        return
    for key in ("e", "l", "r", "i", "cond", "then", "else", "body", "base"):
        if key in e and isinstance(e[key], dict):
            walk(crate, e[key], ("operand",), sites, ctx)
    for key in ("es", "upvars"):
        if key in e:
            for x in e[key]:
                walk(crate, x, ("operand",), sites, ctx)


def walk_block(crate, b, sites, ctx):
    walk(crate, {"k": "Block", "b": b}, ("stmt",), sites, ctx)


def classify(ctxt):
    """-> (verdict, why)  verdict in ok|bad|panic"""
    k = ctxt[0]
    if k in ("try", "return", "scrut"):
        return "ok", k
    if k == "tail":
        # value of the enclosing block: fine when the block itself is in value position
        return classify(ctxt[1]) if ctxt[1] else ("ok", "tail")
    if k == "arm":
        return classify(ctxt[1]) if ctxt[1] else ("ok", "arm")
    if k == "field":
        return "ok", "stored"
    if k == "let":
        return "ok", "bound to `%s`" % ctxt[1]
    if k == "assign":
        return "ok", "assigned"
    if k == "stmt":
        return "bad", "result discarded (expression statement)"
    if k == "let_wild":
        return "bad", "result discarded (`let _ =`)"
    if k == "cond":
        return "ok", "condition"
    if k == "arg":
        nm = ctxt[1]
        if ctxt[2] == 0 and nm in PASS_THROUGH:
            return classify(ctxt[3]) if ctxt[3] else ("ok", nm)
        if ctxt[2] == 0 and nm in SWALLOW:
            return "bad", "error swallowed by `.%s()`" % nm
        if ctxt[2] == 0 and nm in PANICKY:
            return "panic", "`.%s()` on a Result" % nm
        return "ok", "argument of " + str(nm)
    if k in ("operand", "fun", "place"):
        return "ok", k
    return "ok", k


def in_scope(b, scope_files):
    f = b.crate.files[b.sp[0]] if b.sp else ""
    return any(s in f for s in scope_files)


def rule_PERR(u, rep, scope_files, crate="epserde", exclude_fn=None, only_callees=None, errs=None):
    _ERR_FILTER[0] = errs
    try:
        return _rule_PERR(u, rep, scope_files, crate, exclude_fn, only_callees)
    finally:
        _ERR_FILTER[0] = None


def _mentions_err_result(t, depth=0):
    if not isinstance(t, tuple) or depth > 6:
        return False
    if is_err_result(t):
        return True
    return any(_mentions_err_result(x, depth + 1) for x in t if isinstance(x, tuple))


def _err_adaptors_in(u, b, rep):
    """iterator adaptors that silently drop the Err items of a sequence of Results; returns the number of sites"""
    n = 0
    acc = []
    calls_in(b.crate, b.thir["root"], acc)
    for (dj, rj, e) in acc:
        nm = dj.get("name")
        if dj.get("krate") == "core" and nm in ("or_else", "unwrap_or_else") and len(e["args"]) == 2 and _mentions_err_result(b.crate.ty(e["args"][0]["ty"])):
            # the alternative of a failed fallible operation is itself a fallible operation on the stream: a retry or a
            # substitute write/read is issued after a failure (what the sink/source saw of the first attempt stays)
            x = e["args"][1]
            while x.get("k") in ("Use", "NeverToAny") and "e" in x:
                x = x["e"]
            if x.get("k") == "Closure":
                cb = u.bodies.get(b.crate.def_id(x["d"]))
                inner = []
                if cb is not None and cb.thir is not None:
                    calls_in(cb.crate, cb.thir["root"], inner)
                again = [d2 for (d2, _r2, e2) in inner if "ty" in e2 and is_err_result(cb.crate.ty(e2["ty"]))]
                n += 1
                rep.oblige(not again)
                if again:
                    rep.add("P-ERR", "%s:%s" % (short_fn(b), nm), "in `%s` the failure of a fallible operation is answered by `%s` inside `.%s(..)`: another stream operation is issued after a failed one" % (b.n, again[0].get("name"), nm), b.crate.span(e["sp"]))
        if dj.get("krate") == "core" and nm == "or_else" and len(e["args"]) == 2 and _mentions_err_result(b.crate.ty(e["args"][0]["ty"])):
            # the alternative of a failed operation builds an Ok: the failure is turned into success (on some path)
            x = e["args"][1]
            while x.get("k") in ("Use", "NeverToAny") and "e" in x:
                x = x["e"]
            if x.get("k") == "Closure":
                cb = u.bodies.get(b.crate.def_id(x["d"]))
                built = []
                if cb is not None and cb.thir is not None:
                    adts_built_in(cb.crate, cb.thir["root"], built)
                oks = [1 for (aid, vname, _e3) in built if aid == RESULT and vname == "Ok"]
                n += 1
                rep.oblige(not oks)
                if oks:
                    rep.add("P-ERR", "%s:or_else:ok" % short_fn(b), "in `%s` the closure of `.or_else(..)` answers the failure of a fallible operation with `Ok(..)`: on that path the failure is turned into success" % b.n, b.crate.span(e["sp"]))
        if dj.get("krate") == "core" and nm in ("flat_map", "flatten", "filter_map") and e["args"]:
            bad = False
            if nm == "flatten":
                bad = _mentions_err_result(b.crate.ty(e["args"][0]["ty"]))
            else:
                for a in e["args"][1:]:
                    x = a
                    while x.get("k") in ("Use", "NeverToAny") and "e" in x:
                        x = x["e"]
                    if x.get("k") == "Closure":
                        cb = u.bodies.get(b.crate.def_id(x["d"]))
                        rt = None
                        if cb is not None and cb.output is not None:
                            rt = cb.crate.ty(cb.output)
                        elif cb is not None and cb.thir is not None and "ty" in cb.thir["root"]:
                            rt = cb.crate.ty(cb.thir["root"]["ty"])
                        if rt is not None and _mentions_err_result(rt) and nm == "flat_map":
                            bad = True
            n += 1
            rep.oblige(not bad)
            if bad:
                rep.add("P-ERR", "%s:%s" % (short_fn(b), nm), "in `%s` a sequence of Results goes through `.%s(..)`, which silently drops every Err item: a failed read or write disappears" % (b.n, nm), b.crate.span(e["sp"]))
    return n


def rule_err_adaptors(u, rep, scope_files, crate="epserde", errs=None, only_fn=None):
    """the adaptor part of P-ERR alone (for properties that otherwise look at selected callees only)"""
    _ERR_FILTER[0] = errs
    try:
        n = 0
        for b in u.bodies.values():
            if b.thir is None or b.d.get("krate") != crate or not in_scope(b, scope_files):
                continue
            if only_fn and not only_fn(b):
                continue
            n += _err_adaptors_in(u, b, rep)
        return n
    finally:
        _ERR_FILTER[0] = None


def _rule_PERR(u, rep, scope_files, crate="epserde", exclude_fn=None, only_callees=None):
    n = 0
    for b in u.bodies.values():
        if b.thir is None or b.d.get("krate") != crate:
            continue
        if not in_scope(b, scope_files):
            continue
        if exclude_fn and exclude_fn(b):
            continue
        if not only_callees:
            n += _err_adaptors_in(u, b, rep)
        sites = []
        walk(b.crate, b.thir["root"], None, sites, None)
        for (e, parent, _c) in sites:
            callee = b.crate.defj(e["f"]["d"])
            if only_callees and callee.get("name") not in only_callees:
                continue
            verdict, why = classify(parent) if parent else ("ok", "root")
            n += 1
            rep.oblige(verdict != "bad")
            if verdict == "bad":
                rep.add("P-ERR", "%s:%s" % (short_fn(b), callee.get("name")),
                        "in `%s` the Result of `%s` is not propagated: %s" % (b.n, callee.get("n"), why), b.crate.span(e["sp"]))
            elif verdict == "panic":
                rep.count("results_unwrapped")
                rep.notes.append("unwrap of a Result from %s in %s at %s" % (callee.get("name"), b.n, b.crate.span(e["sp"])))
    rep.count("result_call_sites_classified", n)
    return n


def short_fn(b):
    # stable key without line numbers: the pretty path of the function
    return b.n


# ---------------------------------------------------------------------- S-WHO
def calls_in(crate, e, acc):
    if isinstance(e, dict):
        if e.get("k") == "Call" and "d" in e.get("f", {}):
            f = e["f"]
            res = f.get("res")
            acc.append((crate.defj(f["d"]), crate.defj(res["d"]) if (res and "d" in res) else None, e))
        for v in e.values():
            calls_in(crate, v, acc)
    elif isinstance(e, list):
        for v in e:
            calls_in(crate, v, acc)


def adts_built_in(crate, e, acc):
    if isinstance(e, dict):
        if e.get("k") == "Adt":
            acc.append((crate.def_id(e["adt"]), e.get("vname"), e))
        for v in e.values():
            adts_built_in(crate, v, acc)
    elif isinstance(e, list):
        for v in e:
            adts_built_in(crate, v, acc)


def rule_who_calls(u, rep, callee_ids, scope_files, rule, why, crate="epserde"):
    """No function in scope calls any of callee_ids (std functions by def id)."""
    n = 0
    for b in u.bodies.values():
        if b.thir is None or b.d.get("krate") != crate or not in_scope(b, scope_files):
            continue
        acc = []
        calls_in(b.crate, b.thir["root"], acc)
        for (dj, rj, e) in acc:
            n += 1
            if dj["id"] in callee_ids or (rj and rj["id"] in callee_ids):
                rep.oblige(False)
                rep.add(rule, "%s:%s" % (b.n, dj.get("name")), "`%s` calls `%s`: %s" % (b.n, dj.get("n"), why), b.crate.span(e["sp"]))
    rep.count("call_sites_scanned_" + rule, n)
    rep.oblige(True)
    return n


def rule_who_constructs(u, rep, adt, variant, allowed, rule, crate="epserde"):
    """`adt::variant` is constructed only in functions for which allowed(body) is true."""
    sites = 0
    for b in u.bodies.values():
        if b.thir is None or b.d.get("krate") != crate:
            continue
        acc = []
        adts_built_in(b.crate, b.thir["root"], acc)
        for (aid, vname, e) in acc:
            if aid == adt and vname == variant:
                sites += 1
                ok = allowed(b)
                rep.oblige(ok)
                if not ok:
                    rep.add(rule, "%s:%s" % (variant, b.n), "`%s::%s` is constructed in `%s`, outside the functions that own this error" % (adt.split("::")[-1], variant, b.n), b.crate.span(e["sp"]))
    rep.count("construction_sites_" + variant, sites)
    return sites


# ---------------------------------------------------------------------- ERR-DROP (MIR)
def _mentions_local(j, L):
    """a place with base local L occurs as an operand / borrowed place / discriminant source inside j"""
    if isinstance(j, dict):
        if j.get("l") == L and "p" in j:
            return True
        return any(_mentions_local(v, L) for v in j.values())
    if isinstance(j, list):
        return any(_mentions_local(v, L) for v in j)
    return False


def _succs(t):
    k = t.get("k")
    out = []
    if "target" in t:
        out.append(t["target"])
    if k == "SwitchInt":
        out += [x[1] for x in t["targets"]] + [t["otherwise"]]
    return out


def takes_slice_cursor(b):
    """the function works on the in-memory cursor of the eps reader (no stream, no fragmentation)"""
    def has(t, depth=0):
        if not isinstance(t, tuple) or depth > 6:
            return False
        if t and t[0] == "adt" and isinstance(t[1], str) and t[1].endswith("::SliceWithPos"):
            return True
        return any(has(x, depth + 1) for x in t if isinstance(x, tuple))
    try:
        return any(has(b.crate.ty(x)) for x in (b.inputs or []))
    except Exception:
        return False


def rule_err_drop(u, rep, scope_files, crate="epserde", rule="ERR-DROP", errs=None, exclude_fn=None):
    _ERR_FILTER[0] = errs
    try:
        return _rule_err_drop(u, rep, scope_files, crate, rule, exclude_fn)
    finally:
        _ERR_FILTER[0] = None


def _rule_err_drop(u, rep, scope_files, crate="epserde", rule="ERR-DROP", exclude_fn=None):
    """Post-drop-elaboration MIR: no value of type Result<_, E> (E one of the crate's error types) that was produced by a
    call or assignment reaches a Drop of its local (scope end or overwrite) on a normal path without having been read
    (moved, matched, borrowed) in between: a Result that is dropped is an error that nobody saw."""
    nb = nl = 0
    for b in u.bodies.values():
        if b.mir is None or b.d.get("krate") != crate or not in_scope(b, scope_files):
            continue
        if exclude_fn and exclude_fn(b):
            continue
        m = b.mir
        locs = m["locals"]
        res_locals = [i for i, l in enumerate(locs) if is_err_result(b.crate.ty(l["ty"]))]
        nb += 1
        if not res_locals:
            continue
        blocks = m["blocks"]
        preds = {}
        for bi, blk in enumerate(blocks):
            if blk.get("cleanup"):
                continue
            for s in _succs(blk["term"]):
                preds.setdefault(s, []).append(bi)
        for L in res_locals:
            nl += 1
            for bi, blk in enumerate(blocks):
                t = blk["term"]
                if blk.get("cleanup") or t.get("k") != "Drop" or t["place"].get("l") != L or t["place"].get("p"):
                    continue
                # backward search for a definition that reaches this drop unread
                bad = None
                seen = set()
                work = [(bi, len(blk["stmts"]))]
                while work and bad is None:
                    cb, upto = work.pop()
                    stmts = blocks[cb]["stmts"]
                    stop = False
                    for si in range(upto - 1, -1, -1):
                        st = stmts[si]
                        if st.get("k") != "Assign":
                            continue
                        if _mentions_local(st.get("rv"), L):
                            stop = True      # read
                            break
                        pl = st["place"]
                        if pl.get("l") == L:
                            if not pl.get("p"):
                                rv = st["rv"]
                                # a literal Ok(..) carries no error: not a definition of interest
                                if not (rv.get("k") == "Aggregate" and rv.get("vname") == "Ok"):
                                    bad = b.crate.span(st["sp"])
                                stop = True
                                break
                    if stop or bad:
                        continue
                    for pb in preds.get(cb, []):
                        if pb in seen:
                            continue
                        seen.add(pb)
                        pt = blocks[pb]["term"]
                        k = pt.get("k")
                        if k == "Call":
                            d = pt.get("dest", {})
                            if d.get("l") == L and not d.get("p"):
                                bad = b.crate.span(pt["sp"])
                                break
                            if _mentions_local(pt.get("args"), L):
                                continue
                        elif k == "Drop":
                            if pt["place"].get("l") == L:
                                continue
                        elif k == "SwitchInt":
                            if _mentions_local(pt.get("discr"), L):
                                continue
                        work.append((pb, len(blocks[pb]["stmts"])))
                rep.oblige(bad is None)
                if bad is not None:
                    nm = None
                    for n_ in m.get("names", []):
                        if n_["place"].get("l") == L and not n_["place"].get("p"):
                            nm = n_["name"]
                    rep.add(rule, "%s:%s" % (b.n, nm or "temporary"),
                            "in `%s` a Result (%s, produced at %s) is dropped without having been propagated or inspected: the error it may hold is lost"
                            % (b.n, "variable `%s`" % nm if nm else "a temporary", bad), b.crate.span(t["sp"]))
    rep.count("mir_bodies_scanned_" + rule, nb)
    rep.count("result_locals_tracked_" + rule, nl)
    return nl


RELABEL_FNS = ("or", "or_else", "map_err")


def _is_stream_primitive_call(b, x):
    while isinstance(x, dict) and x.get("k") in ("Use", "NeverToAny", "Scope") and "e" in x:
        x = x["e"]
    if not isinstance(x, dict) or x.get("k") != "Call":
        return False
    acc = []
    calls_in(b.crate, x, acc)
    for (dj, _rj, e) in acc:
        if e is x:
            n = dj.get("n") or ""
            return "::ReadWithPos::" in n or "::ReadNoStd::" in n
    return False


def _relabel_sites(u, primitive_only=False):
    """(ids of THIR nodes, def ids of closures) that are the alternative of a failed Result: the second argument of
    Result::or / or_else / map_err. An error built there replaces another error; it is not a refusal of its own."""
    nodes, closures = set(), set()
    for b in u.bodies.values():
        if b.thir is None:
            continue
        acc = []
        calls_in(b.crate, b.thir["root"], acc)
        for (dj, _rj, e) in acc:
            if dj.get("krate") == "core" and dj.get("name") in RELABEL_FNS and len(e["args"]) == 2 and _mentions_err_result(b.crate.ty(e["args"][0]["ty"])):
                if primitive_only and not _is_stream_primitive_call(b, e["args"][0]):
                    continue
                stack = [e["args"][1]]
                while stack:
                    x = stack.pop()
                    if isinstance(x, dict):
                        nodes.add(id(x))
                        if x.get("k") == "Closure":
                            closures.add(b.crate.def_id(x["d"]))
                        stack.extend(x.values())
                    elif isinstance(x, list):
                        stack.extend(x)
    return nodes, closures


def rule_reader_refusals(u, rep, mode, rule="ERR-WHO", relabel_ok=False, tags_only=False):
    """Per-type readers (the `_deserialize_{full,eps}_inner*` methods of every impl, built-in or derived, and the
    helpers of deser/helpers.rs) may construct exactly one error themselves: InvalidTag, for a tag no variant
    writes. Every other failure must come up from a stream primitive. A reader that builds another error refuses
    stream forms the (total) writers produce."""
    n = 0
    want = "_deserialize_%s_inner" % mode
    rl_nodes, rl_closures = _relabel_sites(u, relabel_ok == "primitive") if relabel_ok else (set(), set())
    all_rl_nodes = _relabel_sites(u)[0] if tags_only else set()
    for b in u.bodies.values():
        if b.thir is None or b.kind not in ("Fn", "AssocFn", "Closure"):
            continue
        if b.id in rl_closures:
            continue
        nm = b.d.get("name") or ""
        f = b.crate.files[b.sp[0]] if b.sp else ""
        other = "eps" if mode == "full" else "full"
        is_reader = nm.startswith(want) or (b.d.get("krate") == "epserde" and "deser/helpers.rs" in f and (mode in nm or other not in nm))
        # the top-level entry point of the mode (header check + the reader): it refuses nothing by itself
        is_entry = b.d.get("krate") == "epserde" and nm == "deserialize_%s" % mode and "deser/mod.rs" in f
        is_reader = is_reader or is_entry
        if not is_reader:
            continue
        acc = []
        adts_built_in(b.crate, b.thir["root"], acc)
        n += 1
        tagged = is_entry or any(aid == "epserde::deser::Error" and vname == "InvalidTag" for (aid, vname, _e) in acc)
        for (aid, vname, e) in acc:
            if aid == "epserde::deser::Error":
                if id(e) in rl_nodes:
                    continue                  # replaces the error of a failed operation (decided by the error-path properties)
                if tags_only and not tagged and id(e) not in all_rl_nodes:
                    continue                  # a fresh refusal in a reader that handles no tag cannot hide or rewrite an InvalidTag
                ok = vname == "InvalidTag" and not (b.d.get("krate") == "epserde" and nm == "deserialize_%s" % mode)
                rep.oblige(ok)
                if not ok:
                    rep.add(rule, "%s:%s" % (b.n, vname), "the %s reader `%s` builds Error::%s itself: apart from InvalidTag for a foreign tag, a reader may only pass on failures of the stream unchanged: this either refuses a stream that serialization produces or replaces the failure it was handed" % (mode, b.n, vname), b.crate.span(e["sp"]))
    rep.count("reader_functions_scanned_" + mode, n)
    return n


_PANIC_CACHE = {}


def _may_panic(u, did, depth=0):
    """the function (or a crate function it calls, two levels down) contains an explicit panic / assert"""
    key = (id(u), did)
    if key in _PANIC_CACHE:
        return _PANIC_CACHE[key]
    _PANIC_CACHE[key] = False
    hb = u.bodies.get(did)
    r = False
    if hb is not None and hb.thir is not None and depth <= 2:
        inner = []
        calls_in(hb.crate, hb.thir["root"], inner)
        for d2, r2, _e2 in inner:
            nm = d2.get("name") or ""
            if d2.get("krate") in ("core", "std") and (nm in ("panic", "panic_fmt", "panic_explicit", "panic_display", "assert_failed", "begin_panic", "unreachable_display") or nm in ("unwrap", "expect")):
                r = True
                break
            if d2.get("krate") == hb.d.get("krate") and _may_panic(u, (r2 or d2).get("id"), depth + 1):
                r = True
                break
    _PANIC_CACHE[key] = r
    return r


def rule_fail_fast(u, rep, scope_files, crate="epserde", rule="FAIL-FAST", errs=None, exclude_fn=None):
    """MIR: between a call that returns Result<_, crate error> and the next such call on any normal path, the first
    result must have been looked at (moved into `?`/match/return, borrowed, its discriminant read). Otherwise the
    second operation is started although the first may have failed (`a().and(b())`, `let x = a(); let y = b(); x?; y?`):
    the sink receives bytes after a rejected write."""
    _ERR_FILTER[0] = errs
    try:
        n = 0
        for b in u.bodies.values():
            if b.mir is None or b.d.get("krate") != crate or not in_scope(b, scope_files):
                continue
            if exclude_fn and exclude_fn(b):
                continue
            m = b.mir
            locs = m["locals"]
            blocks = m["blocks"]
            res_local = set(i for i, l in enumerate(locs) if is_err_result(b.crate.ty(l["ty"])))
            if not res_local:
                continue
            for bi, blk in enumerate(blocks):
                t = blk["term"]
                if blk.get("cleanup") or t.get("k") != "Call":
                    continue
                d = t.get("dest", {})
                if d.get("p") or d.get("l") not in res_local or "target" not in t:
                    continue
                L = d["l"]
                n += 1
                bad = None
                seen = set()
                work = [t["target"]]
                while work and bad is None:
                    cb = work.pop()
                    if cb in seen or blocks[cb].get("cleanup"):
                        continue
                    seen.add(cb)
                    stop = False
                    for st in blocks[cb]["stmts"]:
                        if st.get("k") == "Assign" and (_mentions_local(st.get("rv"), L) or (st["place"].get("l") == L)):
                            stop = True
                            break
                    if stop:
                        continue
                    t2 = blocks[cb]["term"]
                    k2 = t2.get("k")
                    if k2 == "Call":
                        if _mentions_local(t2.get("args"), L):
                            continue
                        d2 = t2.get("dest", {})
                        if not d2.get("p") and d2.get("l") in res_local:
                            bad = t2
                            break
                        # a step of the crate that can panic, run while the failure is still pending: the state a
                        # failed operation leaves is not the one its assertions were written for
                        fn = ((t2.get("func") or {}).get("const") or {}).get("fn") or {}
                        if "d" in fn:
                            cid = b.crate.def_id(fn["d"])
                            if cid.startswith(crate + "::") and _may_panic(u, cid):
                                bad_panic = t2
                                rep.oblige(False)
                                rep.add(rule, b.n + ":panic-pending", "in `%s` the call at %s can panic and runs before the result of the fallible operation at %s has been looked at: a failure of the writer may surface as a panic" % (b.n, b.crate.span(t2["sp"]), b.crate.span(t["sp"])), b.crate.span(t2["sp"]))
                                work = []
                                break
                    elif k2 == "SwitchInt" and _mentions_local(t2.get("discr"), L):
                        continue
                    elif k2 == "Drop" and t2["place"].get("l") == L:
                        continue
                    elif k2 == "Return":
                        continue
                    work.extend(_succs(t2))
                rep.oblige(bad is None)
                if bad is not None:
                    rep.add(rule, b.n, "in `%s` the fallible operation at %s is started before the result of the one at %s has been looked at: it runs even if the earlier one failed" % (b.n, b.crate.span(bad["sp"]), b.crate.span(t["sp"])), b.crate.span(bad["sp"]))
        rep.count("fallible_calls_ordered_" + rule, n)
        return n
    finally:
        _ERR_FILTER[0] = None


# std's byte-offset operations on strings: each panics when the offset is not on a char boundary (or out of range)
STR_OFFSET_FNS = ("truncate", "split_at", "split_at_mut", "split_off", "insert", "insert_str", "remove", "drain", "replace_range", "index", "index_mut")
BOUNDARY_SOURCES = ("len", "floor_char_boundary", "ceil_char_boundary", "find", "rfind", "char_indices", "len_utf8", "is_char_boundary", "match_indices", "rmatch_indices")


def rule_str_offsets(u, rep, scope_files, crate="epserde", rule="STR-BOUNDARY"):
    """Serialization is total: the one string the writer side handles is `type_name::<T>()`, arbitrary UTF-8 (identifiers
    may be non-ASCII). A byte-offset operation of std on a String/str (truncate, split_at, slicing, ...) panics off a
    char boundary, so in the writer side its offset must come from a boundary-producing operation of the same API
    family (len, find, char_indices, floor_char_boundary, ...) or be tested with is_char_boundary."""
    n = 0
    for b in u.bodies.values():
        if b.thir is None or b.d.get("krate") != crate or not in_scope(b, scope_files):
            continue
        acc = []
        calls_in(b.crate, b.thir["root"], acc)
        names = set((rj or dj).get("name") for dj, rj, _e in acc)
        for (dj, rj, e) in acc:
            d = rj or dj
            if d.get("krate") not in ("core", "alloc", "std") or d.get("name") not in STR_OFFSET_FNS or not e["args"]:
                continue
            rt = b.crate.ty(e["args"][0]["ty"])
            while isinstance(rt, tuple) and rt and rt[0] == "ref":
                rt = rt[2]
            is_str = rt == ("prim", "str") or (isinstance(rt, tuple) and rt and rt[0] == "adt" and rt[1] == "alloc::string::String")
            if not is_str:
                continue
            n += 1
            inner = []
            for a in e["args"][1:]:
                calls_in(b.crate, a, inner)
            derived = any((r2 or d2).get("name") in BOUNDARY_SOURCES for d2, r2, _e2 in inner)
            lit0 = all(_is_lit_zero_range(a) for a in e["args"][1:])
            ok = derived or lit0 or "is_char_boundary" in names or "floor_char_boundary" in names
            rep.oblige(ok)
            if not ok:
                rep.add(rule, "%s:%s" % (short_fn(b), d.get("name")), "`%s` applies the byte-offset operation `%s` to a string with an offset that does not come from a char-boundary-producing operation: it panics when the offset falls inside a multi-byte character (type names may contain any identifier character)" % (b.n, d.get("n")), b.crate.span(e["sp"]))
    rep.count("string_offset_sites", n)
    return n


def _is_lit_zero_range(a):
    x = a
    while isinstance(x, dict) and x.get("k") in ("Use", "NeverToAny", "Scope", "Cast") and "e" in x:
        x = x["e"]
    return isinstance(x, dict) and x.get("k") == "Lit" and x.get("v") == 0
