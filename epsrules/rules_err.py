"""P-ERR on THIR: every call that returns a Result with one of the crate's error types is
propagated (`?`, return/tail position), matched, or transformed by map/map_err/and_then into
something that is; it is never discarded (expression statement, `let _`), tested and forgotten
(`is_ok`, `is_err`, `ok`, `err`) or defaulted (`unwrap_or*`).

S-WHO: who may call / construct.
"""
from . import facts
from .facts import ty_str

ERR_TYPES = ("epserde::deser::Error", "epserde::ser::Error", "std::io::error::Error", "anyhow::Error", "mmap_rs::error::Error")
RESULT = "core::result::Result"

PASS_THROUGH = {"map_err", "map", "and_then", "or_else", "context", "with_context", "inspect_err", "branch", "from_residual", "into", "from"}
SWALLOW = {"ok", "is_ok", "is_err", "err", "unwrap_or", "unwrap_or_default", "unwrap_or_else", "iter", "is_ok_and", "is_err_and", "unwrap_unchecked", "map_or", "map_or_else"}
PANICKY = {"unwrap", "expect"}


def is_err_result(t):
    return isinstance(t, tuple) and t[0] == "adt" and t[1] == RESULT and len(t[2]) >= 2 and isinstance(t[2][1], tuple) and t[2][1][0] == "adt" and t[2][1][1] in ERR_TYPES


def walk(crate, e, parent, sites, ctx):
    """Collect (call expr, context) for every Result-returning call."""
    if not isinstance(e, dict):
        return
    k = e.get("k")
    if k == "Call" and "ty" in e:
        t = crate.ty(e["ty"])
        if is_err_result(t) and "d" in e.get("f", {}):
            sites.append((e, parent, ctx))
    # recurse with context
    if k == "Block":
        b = e["b"]
        for st in b["stmts"]:
            if st["k"] == "Expr":
                walk(crate, st["e"], ("stmt",), sites, ctx)
            else:
                if "init" in st:
                    pat = st["pat"]
                    c = ("let_wild",) if pat["k"] == "Wild" else ("let", pat.get("name"))
                    walk(crate, st["init"], c, sites, ctx)
                if "else" in st:
                    walk_block(crate, st["else"], sites, ctx)
        if "expr" in b:
            walk(crate, b["expr"], ("tail", parent), sites, ctx)
        return
    if k == "Call":
        nm = crate.defj(e["f"]["d"]).get("name") if "d" in e.get("f", {}) else None
        for i, a in enumerate(e["args"]):
            walk(crate, a, ("arg", nm, i, parent), sites, ctx)
        if "fun" in e:
            walk(crate, e["fun"], ("fun",), sites, ctx)
        return
    if k == "Match":
        src = e["src"]
        walk(crate, e["scrut"], ("try",) if src.startswith("TryDesugar") else ("scrut",), sites, ctx)
        for a in e["arms"]:
            walk(crate, a["body"], ("arm", parent), sites, ctx)
            if "guard" in a:
                walk(crate, a["guard"], ("cond",), sites, ctx)
        return
    if k == "If":
        walk(crate, e["cond"], ("cond",), sites, ctx)
        walk(crate, e["then"], ("arm", parent), sites, ctx)
        if "else" in e:
            walk(crate, e["else"], ("arm", parent), sites, ctx)
        return
    if k == "LetExpr":
        walk(crate, e["e"], ("scrut",), sites, ctx)
        return
    if k == "Return":
        if "e" in e:
            walk(crate, e["e"], ("return",), sites, ctx)
        return
    if k in ("Use", "NeverToAny", "Borrow", "Deref", "Coerce", "Cast"):
        walk(crate, e["e"], parent, sites, ctx)
        return
    if k == "Loop":
        walk(crate, e["body"], ("stmt",), sites, ctx)
        return
    if k == "Assign":
        walk(crate, e["r"], ("assign",), sites, ctx)
        walk(crate, e["l"], ("place",), sites, ctx)
        return
    if k == "Adt":
        for f in e["fields"]:
            walk(crate, f["e"], ("field", parent), sites, ctx)
        return
    for key in ("e", "l", "r", "i", "cond", "then", "else", "body", "base"):
        if key in e and isinstance(e[key], dict):
            walk(crate, e[key], ("operand",), sites, ctx)
    for key in ("es", "upvars"):
        if key in e:
            for x in e[key]:
                walk(crate, x, ("operand",), sites, ctx)


def walk_block(crate, b, sites, ctx):
    walk(crate, {"k": "Block", "b": b}, ("stmt",), sites, ctx)


def classify(ctxt):
    """-> (verdict, why)  verdict in ok|bad|panic"""
    k = ctxt[0]
    if k in ("try", "return", "scrut"):
        return "ok", k
    if k == "tail":
        # value of the enclosing block: fine when the block itself is in value position
        return classify(ctxt[1]) if ctxt[1] else ("ok", "tail")
    if k == "arm":
        return classify(ctxt[1]) if ctxt[1] else ("ok", "arm")
    if k == "field":
        return "ok", "stored"
    if k == "let":
        return "ok", "bound to `%s`" % ctxt[1]
    if k == "assign":
        return "ok", "assigned"
    if k == "stmt":
        return "bad", "result discarded (expression statement)"
    if k == "let_wild":
        return "bad", "result discarded (`let _ =`)"
    if k == "cond":
        return "ok", "condition"
    if k == "arg":
        nm = ctxt[1]
        if ctxt[2] == 0 and nm in PASS_THROUGH:
            return classify(ctxt[3]) if ctxt[3] else ("ok", nm)
        if ctxt[2] == 0 and nm in SWALLOW:
            return "bad", "error swallowed by `.%s()`" % nm
        if ctxt[2] == 0 and nm in PANICKY:
            return "panic", "`.%s()` on a Result" % nm
        return "ok", "argument of " + str(nm)
    if k in ("operand", "fun", "place"):
        return "ok", k
    return "ok", k


def in_scope(b, scope_files):
    f = b.crate.files[b.sp[0]] if b.sp else ""
    return any(s in f for s in scope_files)


def rule_PERR(u, rep, scope_files, crate="epserde", exclude_fn=None, only_callees=None):
    n = 0
    for b in u.bodies.values():
        if b.thir is None or b.d.get("krate") != crate:
            continue
        if not in_scope(b, scope_files):
            continue
        if exclude_fn and exclude_fn(b):
            continue
        sites = []
        walk(b.crate, b.thir["root"], None, sites, None)
        for (e, parent, _c) in sites:
            callee = b.crate.defj(e["f"]["d"])
            if only_callees and callee.get("name") not in only_callees:
                continue
            verdict, why = classify(parent) if parent else ("ok", "root")
            n += 1
            rep.oblige(verdict != "bad")
            if verdict == "bad":
                rep.add("P-ERR", "%s:%s" % (short_fn(b), callee.get("name")),
                        "in `%s` the Result of `%s` is not propagated: %s" % (b.n, callee.get("n"), why), b.crate.span(e["sp"]))
            elif verdict == "panic":
                rep.count("results_unwrapped")
                rep.notes.append("unwrap of a Result from %s in %s at %s" % (callee.get("name"), b.n, b.crate.span(e["sp"])))
    rep.count("result_call_sites_classified", n)
    return n


def short_fn(b):
    # stable key without line numbers: the pretty path of the function
    return b.n


# ---------------------------------------------------------------------- S-WHO
def calls_in(crate, e, acc):
    if isinstance(e, dict):
        if e.get("k") == "Call" and "d" in e.get("f", {}):
            f = e["f"]
            res = f.get("res")
            acc.append((crate.defj(f["d"]), crate.defj(res["d"]) if (res and "d" in res) else None, e))
        for v in e.values():
            calls_in(crate, v, acc)
    elif isinstance(e, list):
        for v in e:
            calls_in(crate, v, acc)


def adts_built_in(crate, e, acc):
    if isinstance(e, dict):
        if e.get("k") == "Adt":
            acc.append((crate.def_id(e["adt"]), e.get("vname"), e))
        for v in e.values():
            adts_built_in(crate, v, acc)
    elif isinstance(e, list):
        for v in e:
            adts_built_in(crate, v, acc)


def rule_who_calls(u, rep, callee_ids, scope_files, rule, why, crate="epserde"):
    """No function in scope calls any of callee_ids (std functions by def id)."""
    n = 0
    for b in u.bodies.values():
        if b.thir is None or b.d.get("krate") != crate or not in_scope(b, scope_files):
            continue
        acc = []
        calls_in(b.crate, b.thir["root"], acc)
        for (dj, rj, e) in acc:
            n += 1
            if dj["id"] in callee_ids or (rj and rj["id"] in callee_ids):
                rep.oblige(False)
                rep.add(rule, "%s:%s" % (b.n, dj.get("name")), "`%s` calls `%s`: %s" % (b.n, dj.get("n"), why), b.crate.span(e["sp"]))
    rep.count("call_sites_scanned_" + rule, n)
    rep.oblige(True)
    return n


def rule_who_constructs(u, rep, adt, variant, allowed, rule, crate="epserde"):
    """`adt::variant` is constructed only in functions for which allowed(body) is true."""
    sites = 0
    for b in u.bodies.values():
        if b.thir is None or b.d.get("krate") != crate:
            continue
        acc = []
        adts_built_in(b.crate, b.thir["root"], acc)
        for (aid, vname, e) in acc:
            if aid == adt and vname == variant:
                sites += 1
                ok = allowed(b)
                rep.oblige(ok)
                if not ok:
                    rep.add(rule, "%s:%s" % (variant, b.n), "`%s::%s` is constructed in `%s`, outside the functions that own this error" % (adt.split("::")[-1], variant, b.n), b.crate.span(e["sp"]))
    rep.count("construction_sites_" + variant, sites)
    return sites
