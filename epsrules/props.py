"""Per-property checks. Each builds a Report from rule engines over the facts of the current tree."""
import os
import sys
import time
import traceback

from . import common, facts, interp, wire, rules_wire, rules_header
from .common import Report, Facts, ExportError

ASSUME_COMMON = [
    "A1 rustc's THIR/MIR for the analysed configuration (dev profile, x86-64, nightly 1.97) is the program that runs",
    "A2 std contracts: write_all, read_exact, align_to, Vec/Box ownership, field drop order",
    "A5 the fact exporter (tools/epsfacts, rule-free) is a faithful image of THIR/MIR",
]
TRUSTED = ["rustc nightly front end (THIR, MIR, layout, const-eval)", "tools/epsfacts exporter", "epsrules abstract interpreter"]


class Ctx:
    def __init__(self, prop, tier, seed):
        self.prop = prop
        self.tier = tier
        self.seed = seed
        self.facts = Facts()
        self.rep = Report(prop, tier)
        self._u = {}
        self._triples = {}

    def universe(self, config="default", witnesses=()):
        key = (config, tuple(witnesses))
        if key not in self._u:
            paths = [self.facts.epserde(config)]
            for wn in witnesses:
                paths.append(self.facts.witness(wn, os.path.join(common.VERIF, "witness", wn)))
            self._u[key] = facts.load_universe(paths)
        return self._u[key]

    def triples(self, config="default", witnesses=()):
        key = (config, tuple(witnesses))
        if key not in self._triples:
            u = self.universe(config, witnesses)
            w = wire.Wire(u)
            ts = rules_wire.collect(u, w)
            for t in ts:
                t.universe = u
                t.wire = w
            self._triples[key] = (u, w, ts, rules_wire.Expander(u, w))
        return self._triples[key]


CORPUS = ("wcorpus",)


def wire_props(ctx, modes, want, floor_impls, only_crates=None):
    rep = ctx.rep
    u, w, ts, exp = ctx.triples("default", CORPUS)
    n = 0
    nd = 0
    for t in ts:
        if only_crates and t.crate not in only_crates:
            continue
        if t.crate != "epserde":
            nd += 1
        rules_wire.check_triple(t, exp, rep, modes=modes, want=want)
        n += 1
        for side in ("ser",) + tuple(modes):
            for p in (t.paths.get(side) or [])[:1]:
                if len(rep.samples) < 8 and p.outcome == "ok" and p.atoms:
                    rep.sample({"impl": t.key, "side": side, "when": p.cond_show(), "term": p.show()})
    rep.count("impls_analysed", n)
    rep.count("derived_impls_analysed", nd)
    rep.floor("SerializeInner/DeserializeInner impl pairs", n, floor_impls)
    if not only_crates or "wcorpus" in only_crates:
        rep.floor("derived impl pairs of the corpus", nd, 30)
    return ts


def check_C01(ctx):
    rep = ctx.rep
    rep.rule("W1", "per impl and per static/selector case: normalised wire term of _serialize_inner == that of _deserialize_full_inner")
    rep.rule("W2", "k-th atom: writer source field == reader sink field of the rebuilt aggregate")
    rep.rule("W3", "variant->tag map injective; reader tag->variant map is its inverse; catch-all rejects")
    rep.rule("W4", "every raw block is immediately preceded by the alignment point of its own unit")
    rep.rule("W5", "every written type has a reader or is a write-only view")
    wire_props(ctx, ("full",), ("W1", "W2", "W3", "W4", "W5", "PROB"), 56)
    return ("Static sibling agreement (writer vs full-copy reader) of every built-in impl: wire terms extracted by abstract "
            "interpretation of THIR with every stream value symbolic; by induction over types, agreement at every impl is the "
            "static content of the round trip. Value-level leaf pairings (to_ne_bytes/from_ne_bytes, bool, char) are not decided.")


def check_C02(ctx):
    rep = ctx.rep
    rep.rule("W1", "normalised wire term of _serialize_inner == that of _deserialize_eps_inner, per static case (Zero/Deep, size_of==0)")
    rep.rule("WIRE-*", "cursor discipline of the eps reader: every peek is consumed by a skip of the same amount, position advanced by the same n")
    wire_props(ctx, ("eps",), ("W1", "W2", "W3", "W4", "PROB"), 56)
    return ("Static sibling agreement writer vs eps reader (and thereby eps vs full, both being equal to the writer term) for every "
            "built-in impl, per static case. Equality of produced values is not decided.")


def check_C15(ctx):
    rep = ctx.rep
    rep.rule("W3", "writer variant->tag injective; both readers' tag->variant maps are the inverse; default arm = Err(InvalidTag(the tag read)); no catch-all arm builds a value")
    ts = wire_props(ctx, ("full", "eps"), ("W3",), 56)
    nsum = sum(1 for t in ts if getattr(t, "is_sum", False) and t.crate == "epserde")
    rep.floor("built-in tagged sum types", nsum, 3)
    nsum2 = sum(1 for t in ts if getattr(t, "is_sum", False) and t.crate != "epserde")
    rep.floor("derived enums of the corpus", nsum2, 7)
    return "Tag tables of every tagged sum type extracted from the resolved program (writer match on self, reader match on the tag read) and compared as finite maps."


def check_C05(ctx):
    import json
    rep = ctx.rep
    rep.rule("COMPILE", "every definition of the corpus compiles with the working-tree derive macro (witness crate patched to /repo/epserde-derive)")
    rep.rule("W1-W4", "sibling agreement of the three derived bodies of every corpus type")
    rep.rule("MODE", "in the derived eps reader a field is read with _deserialize_eps_inner iff its declared type is exactly a type parameter of the item")
    rep.rule("ASSOC", "normalised DeserType / SerType of closed corpus instances (computed by rustc) equal the hand-written expectation derived from the property statement")
    try:
        ts = wire_props(ctx, ("full", "eps"), ("W1", "W2", "W3", "W4", "W5", "PROB"), 30, only_crates=("wcorpus",))
    except ExportError as ex:
        msg = "\n".join(l for l in str(ex).splitlines() if l.startswith("error"))[:600]
        rep.add("COMPILE", "wcorpus", "the corpus of derived definitions does not compile with the working-tree derive macro: " + msg)
        return "corpus failed to compile"
    u = ctx.universe("default", CORPUS)
    # MODE
    for t in ts:
        if t.crate == "epserde" or t.des_impl is None:
            continue
        st = t.des_impl.self_ty
        if st[0] != "adt" or st[1] not in u.adts:
            continue
        c, aj = u.adts[st[1]]
        for r in t.paths.get("eps", []) or []:
            if r.outcome != "ok" or not (isinstance(r.value, tuple) and r.value and r.value[0] == "adt"):
                continue
            vi = r.value[2]
            var = [v for v in aj["variants"] if v["index"] == vi]
            if not var:
                continue
            for (fi, fv) in r.value[3]:
                if fi >= len(var[0]["fields"]):
                    continue
                fty = c.ty(var[0]["fields"][fi]["ty"])
                want = "eps" if fty[0] == "param" else "full"
                for k in rules_wire.atoms_in(fv):
                    for a in r.atoms:
                        if a.atom == k and a.k == "F":
                            ok = a.mode == want
                            rep.oblige(ok)
                            rep.count("fields_mode_classified")
                            if not ok:
                                rep.add("MODE", "%s:%s.%s" % (t.key, var[0]["name"], var[0]["fields"][fi]["name"]),
                                        "`%s`: field %s of type %s is read in %s mode by the derived eps reader, expected %s mode"
                                        % (t.key, var[0]["fields"][fi]["name"], facts.ty_str(fty), a.mode, want), t.loc)
    rep.floor("fields classified by mode", rep.counters.get("fields_mode_classified", 0), 40)
    # ASSOC
    exp = json.load(open(os.path.join(common.VERIF, "witness", "wcorpus", "expect.json")))
    n = 0
    for name, want in exp["aliases"].items():
        ent = u.aliases.get("wcorpus::" + name)
        if ent is None:
            rep.add("ASSOC", name, "corpus alias %s missing from the exported facts" % name)
            continue
        c, aj = ent
        l = aj.get("layout")
        got = c.raw_tys[l["norm"]]["s"] if l else None
        ok = got == want
        rep.oblige(ok)
        n += 1
        if not ok:
            rep.add("ASSOC", name, "associated type %s normalises to `%s`, expected `%s`" % (name, got, want))
        elif len(rep.samples) < 12:
            rep.sample({"alias": name, "normalised": got})
    rep.floor("associated-type equalities", n, 25)
    for name, want in exp["consts"].items():
        if name.startswith("K_"):
            continue
        b = u.bodies.get("wcorpus::" + name)
        got = b.value.get("v") if (b is not None and b.value) else None
        ok = got == want
        rep.oblige(ok)
        if not ok:
            rep.add("CONST", name, "constant %s evaluates to %s, expected %s" % (name, got, want))
    return ("For every definition of the fixed corpus (one per production / feature interaction of the derive grammar): the expansion "
            "type-checks, its three bodies agree as wire terms, the eps/full mode of every field follows the parameter rule, and the "
            "normalised DeserType/SerType equal the expectation. Programs outside the corpus and value equality are not decided.")


def check_C10(ctx):
    rep = ctx.rep
    rep.rule("G1", "acceptance conditions of check_header on its unique accepting path = {magic == MAGIC, major == VERSION.0, minor <= VERSION.1, usize byte == size_of::<usize>(), type hash == computed, align hash == computed}")
    rep.rule("G2", "each rejecting path fails exactly one specified comparison and returns the specified error carrying the value read")
    rep.rule("G3", "no panic path in check_header")
    rep.rule("G4", "deserialize_full / deserialize_eps read the value once, after the header reads, only under all six acceptance conditions")
    rep.rule("G5", "write_header and check_header agree on order, widths and provenance of the header atoms")
    rep.rule("G6", "MAGIC, MAGIC_REV, VERSION const-evaluate to the published values")
    u = ctx.universe()
    rules_header.rules_G(u, rep)
    rules_header.rules_G4(u, rep)
    rules_header.rules_G6(u, rep)
    rep.floor("guard rows of check_header", rep.counters.get("guard_rows", 0), 13)
    return ("Guard table of the header check extracted from all paths of check_header (abstract interpretation, every read symbolic) and compared "
            "with the table implied by the format: operator, reference constant, error variant and payload source of each of the checked fields; "
            "plus dominance of the check over the value read in both deserializers.")


CHECKS = {"C10": check_C10, "C01": check_C01, "C02": check_C02, "C15": check_C15, "C05": check_C05}


def main(argv):
    if not argv:
        print("usage: check <Cnn> [--tier quick|thorough]")
        return 2
    prop = argv[0]
    tier = os.environ.get("VERIF_TIER", "quick")
    if "--tier" in argv:
        tier = argv[argv.index("--tier") + 1]
    if tier not in ("quick", "thorough"):
        tier = "quick"
    try:
        seed = int(os.environ.get("VERIF_SEED", "0"))
    except ValueError:
        seed = 0
    fn = CHECKS.get(prop)
    if fn is None:
        print("unknown property", prop)
        return 2
    ctx = Ctx(prop, tier, seed)
    try:
        explanation = fn(ctx)
    except ExportError as ex:
        # the tree does not build in the analysed configuration: nothing can be decided
        sys.stderr.write("check %s: export failed: %s\n" % (prop, ex))
        ctx.rep.add("BUILD", "export", "the analysed configuration of the repository does not compile: %s" % str(ex)[:300])
        explanation = "export failed"
    except Exception:
        traceback.print_exc()
        sys.stderr.write("check %s: internal error (tool defect, not a verdict)\n" % prop)
        return 3
    return ctx.rep.finish(ASSUME_COMMON, explanation, TRUSTED, ctx.facts, seed)
