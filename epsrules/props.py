"""Per-property checks. Each builds a Report from rule engines over the facts of the current tree."""
import os
import sys
import time
import traceback

from . import common, facts, interp, wire, rules_wire, rules_header, rules_hash, golden, hashrec, rules_align, gen_units, guards, rules_eps, rules_err, rules_schema, rules_loader, rules_zc, rules_cursor, gen_corpus
from .common import Report, Facts, ExportError

ASSUME_COMMON = [
    "A1 rustc's THIR/MIR for the analysed configuration (dev profile, x86-64, nightly 1.97) is the program that runs",
    "A2 std contracts: write_all, read_exact, align_to, Vec/Box ownership, field drop order",
    "A5 the fact exporter (tools/epsfacts, rule-free) is a faithful image of THIR/MIR",
]
TRUSTED = ["rustc nightly front end (THIR, MIR, layout, const-eval)", "tools/epsfacts exporter", "epsrules abstract interpreter"]


class Ctx:
    def __init__(self, prop, tier, seed):
        self.prop = prop
        self.tier = tier
        self.seed = seed
        self.facts = Facts()
        self.rep = Report(prop, tier)
        self._u = {}
        self._triples = {}

    def universe(self, config="default", witnesses=()):
        key = (config, tuple(witnesses))
        if key not in self._u:
            paths = [self.facts.epserde(config)]
            for wn in witnesses:
                paths.append(self.facts.witness(wn, os.path.join(common.VERIF, "witness", wn)))
            self._u[key] = facts.load_universe(paths)
        return self._u[key]

    def triples(self, config="default", witnesses=()):
        key = (config, tuple(witnesses))
        if key not in self._triples:
            u = self.universe(config, witnesses)
            w = wire.Wire(u)
            ts = rules_wire.collect(u, w)
            for t in ts:
                t.universe = u
                t.wire = w
            self._triples[key] = (u, w, ts, rules_wire.Expander(u, w))
        return self._triples[key]


CORPUS = ("wcorpus",)


def wire_props(ctx, modes, want, floor_impls, only_crates=None, w4_sides=None, prob_sides=None):
    rep = ctx.rep
    u, w, ts, exp = ctx.triples("default", CORPUS)
    n = 0
    nd = 0
    for t in ts:
        if only_crates and t.crate not in only_crates:
            continue
        if t.crate != "epserde":
            nd += 1
        rules_wire.check_triple(t, exp, rep, modes=modes, want=want, w4_sides=w4_sides, prob_sides=prob_sides)
        n += 1
        for side in ("ser",) + tuple(modes):
            for p in (t.paths.get(side) or [])[:1]:
                if len(rep.samples) < 8 and p.outcome == "ok" and p.atoms:
                    rep.sample({"impl": t.key, "side": side, "when": p.cond_show(), "term": p.show()})
    rep.count("impls_analysed", n)
    rep.count("derived_impls_analysed", nd)
    rep.floor("SerializeInner/DeserializeInner impl pairs", n, floor_impls)
    if not only_crates or "wcorpus" in only_crates:
        rep.floor("derived impl pairs of the corpus", nd, 30)
    return ts


def align_pair(ctx, roles):
    """the shared align rule restricted to the given implementations"""
    rep = ctx.rep
    u = ctx.universe("default", CORPUS)
    sub = Report(rep.prop, rep.tier)
    rules_align.rule_align_impls(u, sub)
    for f in sub.findings:
        if any(r in f.key for r in roles) or f.rule == "FLOOR":
            rep.findings.append(f)
    rep.obligations += sub.obligations
    rep.discharged += sub.discharged


def check_C01(ctx):
    rep = ctx.rep
    rep.rule("W1", "per impl and per static/selector case: normalised wire term of _serialize_inner == that of _deserialize_full_inner")
    rep.rule("W2", "k-th atom: writer source field == reader sink field of the rebuilt aggregate")
    rep.rule("W3", "variant->tag map injective; reader tag->variant map is its inverse; catch-all rejects")
    rep.rule("W4", "every raw block is immediately preceded by the alignment point of its own unit")
    rep.rule("W5", "every written type has a reader or is a write-only view")
    ts = wire_props(ctx, ("full",), ("W1", "W2", "W3", "W4", "W5", "PROB"), 56)
    rep.rule("W-REFUSE", "a reader path that panics depending on a value it read: the writer writes constants under a selector on the value at that position (the refused values are a declared exclusion; today: exhausted inclusive ranges)")
    nref = sum(rules_wire.check_refusals(t, "full", rep) for t in ts)
    rep.count("value_dependent_reader_refusals_examined", nref)      # no floor: a reader without such a refusal has nothing to justify
    rep.rule("ALIGN", "the writer's align and the stream reader's align move by the same amount pad_align_to(position, unit(T)) (the alignment point is an atom of the wire terms; its two implementations are compared here)")
    align_pair(ctx, ("default WriteWithNames", "ReaderWithPos"))
    rep.rule("G1 / G5", "a stream the writer produces passes the reader's header check: check_header accepts exactly the six conditions, with the two hashes computed as write_header computes them (fresh hasher, the type's own recipe, offset 0) on every call")
    subh = Report(ctx.prop, ctx.tier)
    rules_header.rules_G(ctx.universe("default", CORPUS), subh)
    for f_ in subh.findings:
        if f_.rule in ("G1", "G5", "ANCHOR"):
            rep.findings.append(f_)
    rep.obligations += subh.obligations
    rep.discharged += subh.discharged
    rep.rule("STR-BOUNDARY", "serialization is total over type names: byte-offset string operations of std in ser/ (truncate, split_at, slicing, ...) take their offset from a char-boundary-producing operation")
    rules_err.rule_str_offsets(ctx.universe("default", CORPUS), rep, ("epserde/src/ser/mod.rs", "epserde/src/ser/helpers.rs", "epserde/src/ser/write.rs"))
    rep.rule("WRITE-FWD", "the writer primitive `write` hands every value to its own writer exactly once (no shortcut for a class of types), and write_bytes emits exactly the slice it is given: the wire terms are what reaches the stream")
    rep.floor("default write paths", rules_align.rule_write_delegates(ctx.universe("default", CORPUS), rep), 1)
    rep.floor("default write_bytes paths", rules_align.rule_write_bytes_plain(ctx.universe("default", CORPUS), rep), 1)
    rep.rule("ERR-WHO", "full-copy readers and helpers construct no error of their own except InvalidTag (for a tag no variant writes)")
    nr = rules_err.rule_reader_refusals(ctx.universe("default", CORPUS), rep, "full", relabel_ok=True)
    rep.floor("full-copy reader functions scanned", nr, 80)
    if ctx.tier == "thorough":
        generated_corpus(ctx, rep, ("W1", "W2", "W3", "W4", "W5", "PROB"), modes=("full",))
    return ("Static sibling agreement (writer vs full-copy reader) of every built-in impl: wire terms extracted by abstract "
            "interpretation of THIR with every stream value symbolic; by induction over types, agreement at every impl is the "
            "static content of the round trip. Value-level leaf pairings (to_ne_bytes/from_ne_bytes, bool, char) are not decided.")


def check_C02(ctx):
    rep = ctx.rep
    rep.rule("W1", "normalised wire term of _serialize_inner == that of _deserialize_eps_inner, per static case (Zero/Deep, size_of==0)")
    rep.rule("WIRE-*", "cursor discipline of the eps reader: every peek is consumed by a skip of the same amount, position advanced by the same n")
    ts = wire_props(ctx, ("eps",), ("W1", "W2", "W3", "W4", "PROB"), 56)
    rep.rule("W-REFUSE", "a reader path that panics depending on a value it read: the writer writes constants under a selector on the value at that position")
    nref = sum(rules_wire.check_refusals(t, "eps", rep) for t in ts)
    rep.count("value_dependent_reader_refusals_examined", nref)      # no floor: a reader without such a refusal has nothing to justify
    rep.rule("W1 (full)", "the full-copy reader consumes the same term, per static case: the eps result describes the value full-copy deserialization yields from the same bytes only if both readers accept and decode the same stream forms")
    wire_props(ctx, ("full",), ("W1",), 56)
    rep.rule("ALIGN", "the writer's align and both readers' aligns move by the same amount pad_align_to(position, unit(T)), and none indexes a fixed scratch buffer with the padding")
    align_pair(ctx, ("default WriteWithNames", "SliceWithPos", "ReaderWithPos"))
    rep.rule("M1", "every alignment unit is a power of two >= the native alignment: the eps reader pads with the mask form of pad_align_to and tests `address % unit`, which agree with the writer's offsets only for power-of-two units")
    try:
        uu, cname = units_universe(ctx)
        rules_align.rule_M1(uu, rep, cname)
    except ExportError as ex:
        rep.add("M1", "universe", "the universe of closed zero-copy types no longer compiles: " + str(ex)[-300:])
    rep.rule("WRITE-FWD", "the writer primitive `write` hands every value to its own writer exactly once (no shortcut for a class of types), and write_bytes emits exactly the slice it is given")
    rep.floor("default write paths", rules_align.rule_write_delegates(ctx.universe("default", CORPUS), rep), 1)
    rep.floor("default write_bytes paths", rules_align.rule_write_bytes_plain(ctx.universe("default", CORPUS), rep), 1)
    rep.rule("ERR-WHO", "eps readers and helpers construct no error of their own except InvalidTag (for a tag no variant writes)")
    nr = rules_err.rule_reader_refusals(ctx.universe("default", CORPUS), rep, "eps", relabel_ok=True)
    rep.floor("eps reader functions scanned", nr, 80)
    if ctx.tier == "thorough":
        generated_corpus(ctx, rep, ("W1", "W2", "W3", "W4", "PROB"), modes=("eps",))
    rep.rule("WITNESS", "the documented DeserType substitution as generic compile-pass witnesses (proved by rustc for all instantiations) with negative controls")
    from . import witness
    n = witness.run_probes(ctx, rep, "C02")
    rep.floor("substitution witnesses judged", n, 4)
    return ("Static sibling agreement writer vs eps reader (and thereby eps vs full, both being equal to the writer term) for every "
            "built-in impl, per static case. Equality of produced values is not decided.")


def check_C15(ctx):
    rep = ctx.rep
    rep.rule("W3", "writer variant->tag injective; both readers' tag->variant maps are the inverse; default arm = Err(InvalidTag(the tag read)); no catch-all arm builds a value")
    ts = wire_props(ctx, ("full", "eps"), ("W3",), 56)
    nsum = sum(1 for t in ts if getattr(t, "is_sum", False) and t.crate == "epserde")
    rep.floor("built-in tagged sum types", nsum, 3)
    nsum2 = sum(1 for t in ts if getattr(t, "is_sum", False) and t.crate != "epserde")
    rep.floor("derived enums of the corpus", nsum2, 7)
    rep.rule("ERR-WHO", "the InvalidTag built by a reader reaches the caller: the entry points deserialize_full / deserialize_eps construct no error of their own (they do not rewrite the reader's error), and readers construct none but InvalidTag")
    uu = ctx.universe("default", CORPUS)
    for md in ("full", "eps"):
        rules_err.rule_reader_refusals(uu, rep, md, relabel_ok="primitive", tags_only=True)
    rep.rule("P-ERR", "an InvalidTag raised by an element's reader is not lost in an iterator adaptor that drops the Err items of a sequence of Results (flat_map / flatten / filter_map over Results), on either side")
    rules_err.rule_err_adaptors(uu, rep, DESER_SCOPE, errs=rules_err.DESER_ERRS)
    rep.rule("WRITE-FWD", "the tag a variant's writer emits reaches the stream: the writer primitive `write` hands every value to its own writer exactly once, whatever its type (a zero-sized single-variant enum still owns a tag)")
    rep.floor("default write paths", rules_align.rule_write_delegates(uu, rep), 1)
    if ctx.tier == "thorough":
        r = generated_corpus(ctx, rep, ("W3",))
        if r:
            ng = sum(1 for t in r[1] if getattr(t, "is_sum", False))
            rep.count("generated_enums", ng)
            rep.floor("generated enums", ng, 40)
    return "Tag tables of every tagged sum type extracted from the resolved program (writer match on self, reader match on the tag read) and compared as finite maps."


def generated_corpus(ctx, rep, want, mode_rule=False, assoc=False, hash_rule=False, modes=("full", "eps")):
    """Thorough tier: the bounded-exhaustive + random generated corpus (epsrules/gen_corpus.py)."""
    seed = ctx.seed
    src, expect = gen_corpus.make("thorough", seed)
    try:
        p = ctx.facts.witness("wgen", gen=lambda d: gen_corpus.generate(d, "thorough", seed))
    except ExportError as ex:
        msg = "\n".join(l for l in str(ex).splitlines() if l.startswith("error"))[:600]
        rep.add("COMPILE", "wgen", "the generated corpus (seed %d) does not compile with the working-tree derive macro: %s" % (seed, msg))
        return
    u = facts.load_universe([ctx.facts.epserde("default"), p])
    w = wire.Wire(u)
    ts = rules_wire.collect(u, w, crate_filter=("wgen",))
    exp = rules_wire.Expander(u, w)
    n = 0
    for t in ts:
        t.universe = u
        t.wire = w
        rules_wire.check_triple(t, exp, rep, modes=modes, want=want)
        n += 1
    rep.count("generated_definitions", expect["defs"])
    rep.count("generated_impl_pairs_analysed", n)
    rep.floor("generated impl pairs", n, 200)
    for smp in expect["samples"]:
        rep.sample({"generated_definition": smp})
    if mode_rule:
        mode_rule_over(u, ts, rep)
    if assoc:
        m = 0
        for name, wantt in expect["aliases"].items():
            ent = u.aliases.get("wgen::" + name)
            got = None
            if ent:
                c, aj = ent
                l = aj.get("layout")
                got = c.raw_tys[l["norm"]]["s"] if l else None
            ok = got == wantt
            rep.oblige(ok)
            m += 1
            if not ok:
                rep.add("ASSOC", "wgen:" + name, "generated corpus (seed %d): %s normalises to `%s`, expected `%s`" % (seed, name, got, wantt))
        rep.count("generated_assoc_equalities", m)
    if hash_rule:
        recs = rules_hash.collect(u, rep)
        recs = [r for r in recs if r["impl"].crate.name == "wgen"]
        srcp = os.path.join(common.WORK, "witness", ctx.facts.hash, "wgen", "src", "lib.rs")
        if not os.path.exists(srcp):
            os.makedirs(os.path.dirname(srcp), exist_ok=True)
            open(srcp, "w").write(src)
        k = rules_hash.rule_H1_derived(u, recs, rep, {"wgen": srcp})
        rules_hash.rule_H2(u, recs, ts, rep)
        rep.count("generated_recipes_checked", k)
    return u, ts


def mode_rule_over(u, ts, rep):
    for t in ts:
        if t.crate == "epserde" or t.des_impl is None:
            continue
        st = t.des_impl.self_ty
        if st[0] != "adt" or st[1] not in u.adts:
            continue
        c, aj = u.adts[st[1]]
        for r in t.paths.get("eps", []) or []:
            if r.outcome != "ok" or not (isinstance(r.value, tuple) and r.value and r.value[0] == "adt"):
                continue
            vi = r.value[2]
            var = [v for v in aj["variants"] if v["index"] == vi]
            if not var:
                continue
            for (fi, fv) in r.value[3]:
                if fi >= len(var[0]["fields"]):
                    continue
                fty = c.ty(var[0]["fields"][fi]["ty"])
                want = "eps" if fty[0] == "param" else "full"
                for k in rules_wire.atoms_in(fv):
                    for a in r.atoms:
                        if a.atom == k and a.k == "F":
                            ok = a.mode == want
                            rep.oblige(ok)
                            rep.count("fields_mode_classified")
                            if not ok:
                                rep.add("MODE", "%s:%s.%s" % (t.key, var[0]["name"], var[0]["fields"][fi]["name"]),
                                        "`%s`: field %s of type %s is read in %s mode by the derived eps reader, expected %s mode"
                                        % (t.key, var[0]["fields"][fi]["name"], facts.ty_str(fty), a.mode, want), t.loc)


def check_C05(ctx):
    import json
    rep = ctx.rep
    rep.rule("COMPILE", "every definition of the corpus compiles with the working-tree derive macro (witness crate patched to /repo/epserde-derive)")
    rep.rule("W1-W4", "sibling agreement of the three derived bodies of every corpus type")
    rep.rule("MODE", "in the derived eps reader a field is read with _deserialize_eps_inner iff its declared type is exactly a type parameter of the item")
    rep.rule("ASSOC", "normalised DeserType / SerType of closed corpus instances (computed by rustc) equal the hand-written expectation derived from the property statement")
    try:
        ts = wire_props(ctx, ("full", "eps"), ("W1", "W2", "W3", "W4", "W5", "PROB"), 30, only_crates=("wcorpus",))
    except ExportError as ex:
        msg = "\n".join(l for l in str(ex).splitlines() if l.startswith("error"))[:600]
        rep.add("COMPILE", "wcorpus", "the corpus of derived definitions does not compile with the working-tree derive macro: " + msg)
        return "corpus failed to compile"
    # premise of "all instantiations": the built-in impls a derived body delegates to agree with their own writers
    rep.rule("W1 (built-in)", "the built-in impls that instantiate the parameters and make up the fields agree with their writers in both modes (the inductive premise of the derived bodies' agreement)")
    wire_props(ctx, ("full", "eps"), ("W1", "PROB"), 56, only_crates=("epserde",))
    u = ctx.universe("default", CORPUS)
    # derived type information: the alignment unit (MaxSizeOf) and the IS_ZERO_COPY conjunction are macro output too
    rep.rule("M2", "derived max_size_of = max over align_of::<Self>() and the unit of every field")
    rep.rule("ZC-CONST", "derived IS_ZERO_COPY = repr(C) flag && IS_ZERO_COPY of every field type")
    nm2 = rules_align.rule_M2(u, rep)
    rep.floor("derived zero-copy units checked", nm2, 12)
    rules_zc.rule_derived_const(u, rep)
    # MODE
    for t in ts:
        if t.crate == "epserde" or t.des_impl is None:
            continue
        st = t.des_impl.self_ty
        if st[0] != "adt" or st[1] not in u.adts:
            continue
        c, aj = u.adts[st[1]]
        for r in t.paths.get("eps", []) or []:
            if r.outcome != "ok" or not (isinstance(r.value, tuple) and r.value and r.value[0] == "adt"):
                continue
            vi = r.value[2]
            var = [v for v in aj["variants"] if v["index"] == vi]
            if not var:
                continue
            for (fi, fv) in r.value[3]:
                if fi >= len(var[0]["fields"]):
                    continue
                fty = c.ty(var[0]["fields"][fi]["ty"])
                want = "eps" if fty[0] == "param" else "full"
                for k in rules_wire.atoms_in(fv):
                    for a in r.atoms:
                        if a.atom == k and a.k == "F":
                            ok = a.mode == want
                            rep.oblige(ok)
                            rep.count("fields_mode_classified")
                            if not ok:
                                rep.add("MODE", "%s:%s.%s" % (t.key, var[0]["name"], var[0]["fields"][fi]["name"]),
                                        "`%s`: field %s of type %s is read in %s mode by the derived eps reader, expected %s mode"
                                        % (t.key, var[0]["fields"][fi]["name"], facts.ty_str(fty), a.mode, want), t.loc)
    rep.floor("fields classified by mode", rep.counters.get("fields_mode_classified", 0), 40)
    # ASSOC
    exp = json.load(open(os.path.join(common.VERIF, "witness", "wcorpus", "expect.json")))
    n = 0
    for name, want in exp["aliases"].items():
        ent = u.aliases.get("wcorpus::" + name)
        if ent is None:
            rep.add("ASSOC", name, "corpus alias %s missing from the exported facts" % name)
            continue
        c, aj = ent
        l = aj.get("layout")
        got = c.raw_tys[l["norm"]]["s"] if l else None
        ok = got == want
        rep.oblige(ok)
        n += 1
        if not ok:
            rep.add("ASSOC", name, "associated type %s normalises to `%s`, expected `%s`" % (name, got, want))
        elif len(rep.samples) < 12:
            rep.sample({"alias": name, "normalised": got})
    rep.floor("associated-type equalities", n, 25)
    from . import witness
    witness.run_probes(ctx, rep, "C05")
    if ctx.tier == "thorough":
        generated_corpus(ctx, rep, ("W1", "W2", "W3", "W4", "W5", "PROB"), mode_rule=True, assoc=True, hash_rule=False)
    for name, want in exp["consts"].items():
        if name.startswith("K_") or any(x in name for x in ("_ARR", "_VEC_", "_TUPLE_", "FAKEZERO")):
            continue        # constants of built-in containers / hand-written types belong to C17
        b = u.bodies.get("wcorpus::" + name)
        got = b.value.get("v") if (b is not None and b.value) else None
        ok = got == want
        rep.oblige(ok)
        if not ok:
            rep.add("CONST", name, "constant %s evaluates to %s, expected %s" % (name, got, want))
    return ("For every definition of the fixed corpus (one per production / feature interaction of the derive grammar): the expansion "
            "type-checks, its three bodies agree as wire terms, the eps/full mode of every field follows the parameter rule, and the "
            "normalised DeserType/SerType equal the expectation. Programs outside the corpus and value equality are not decided.")


def check_C10(ctx):
    rep = ctx.rep
    rep.rule("G1", "acceptance conditions of check_header on its unique accepting path = {magic == MAGIC, major == VERSION.0, minor <= VERSION.1, usize byte == size_of::<usize>(), type hash == computed, align hash == computed}")
    rep.rule("G2", "each rejecting path fails exactly one specified comparison and returns the specified error carrying the value read")
    rep.rule("G3", "no panic path in check_header")
    rep.rule("G4", "deserialize_full / deserialize_eps read the value once, after the header reads, only under all six acceptance conditions")
    rep.rule("G5", "write_header and check_header agree on order, widths and provenance of the header atoms")
    rep.rule("G6", "MAGIC, MAGIC_REV, VERSION const-evaluate to the published values")
    u = ctx.universe()
    rules_header.rules_G(u, rep)
    rules_header.rules_G4(u, rep)
    rules_header.rules_G6(u, rep)
    rep.floor("guard rows of check_header", rep.counters.get("guard_rows", 0), 13)
    return ("Guard table of the header check extracted from all paths of check_header (abstract interpretation, every read symbolic) and compared "
            "with the table implied by the format: operator, reference constant, error variant and payload source of each of the checked fields; "
            "plus dominance of the check over the value read in both deserializers.")


def golden_compare(ctx, sections, prop_rule="GOLDEN"):
    """Compare the built-in part of the current tree with spec/format_v1_1.json."""
    rep = ctx.rep
    u, w, ts, exp = ctx.triples("default", CORPUS)
    cur = golden.current(u, w, [t for t in ts if t.crate == "epserde"])
    spec = golden.load()
    n = 0
    for sec in sections:
        sv, cv = spec.get(sec), cur.get(sec)
        if isinstance(sv, dict):
            for k, want in sv.items():
                got = cv.get(k)
                if isinstance(got, tuple):
                    got = list(got)
                if sec == "writers" and k == "bool":
                    # `if *self { 1 } else { 0 }` and `u8::from(*self)` / `*self as u8` put the same byte on the stream
                    canon = lambda rows: [{"when": "", "term": "B(1:[self])"}] if rows == [{"term": "B(1:[0])", "when": ""}, {"term": "B(1:[1])", "when": ""}] else rows
                    want, got = canon(want), canon(got)
                ok = got == want
                rep.oblige(ok)
                n += 1
                if not ok:
                    rep.add(prop_rule, "%s:%s" % (sec, k), "format v1.1 has %s[%s] = %s; the current tree has %s" % (sec, k, want, got))
            # new built-in impls are not a format change of existing files; removed ones are
        else:
            ok = sv == cv or sv == [list(x) if isinstance(x, tuple) else x for x in (cv or [])]
            rep.oblige(ok)
            n += 1
            if not ok:
                rep.add(prop_rule, sec, "format v1.1 has %s = %s; the current tree has %s" % (sec, sv, cv))
    rep.count("golden_entries_compared", n)
    return n


def check_C04(ctx):
    rep = ctx.rep
    rep.rule("H1", "type/alignment hash recipe of every derived corpus type = recipe computed by the checker from the item definition (copy kind, const values and names, type name, field/variant names in order, field types in order; size, repr strings, threaded/fresh offsets)")
    rep.rule("H2", "every type/const parameter of the self type is fed into the type hash; every parameter whose values the writer puts on the stream is fed into the alignment hash")
    rep.rule("H3", "type-hash heads of different type constructors differ")
    rep.rule("H4", "&[T] and SerIter<T,_> delegate both hashes to Vec<T>, SerType = Vec<T>")
    rep.rule("G", "check_header compares both hashes with != against the same recipe the writer stored, returns the specific error, before any value is read")
    u, w, ts, exp = ctx.triples("default", CORPUS)
    recs = rules_hash.collect(u, rep)
    rules_hash.rule_H2(u, recs, ts, rep)
    rules_hash.rule_H3(u, recs, rep)
    rules_hash.rule_H4(u, recs, rep)
    nd = rules_hash.rule_H1_derived(u, recs, rep, {"wcorpus": os.path.join(common.VERIF, "witness", "wcorpus", "src", "lib.rs")})
    rep.floor("hash recipes extracted", len(recs), 180)
    rep.floor("derived recipes checked against the definition", nd, 60)
    if ctx.tier == "thorough":
        generated_corpus(ctx, rep, (), hash_rule=True)
        rep.floor("generated recipes checked against the definition", rep.counters.get("generated_recipes_checked", 0), 300)
    # header rows 5-6 and dominance
    sub = Report("C04", ctx.tier)
    rules_header.rules_G(u, sub)
    rules_header.rules_G4(u, sub)
    for f in sub.findings:
        k = f.key
        # only what concerns the two hash words: their acceptance rows, their rejecting rows, and the
        # dominance of both comparisons over the value read
        hashrow = (":read#4" in k or ":read#5" in k or k.endswith("type_hash") or k.endswith("align_hash") or "hashes" in k or "align-offset" in k)
        if f.rule == "G2" and "reject-prefix" in k:
            continue
        if f.rule in ("G1", "G2", "G5") and hashrow:
            rep.findings.append(f)
        elif f.rule == "G4" and ("unchecked:read#4" in k or "unchecked:read#5" in k or "value-before-check" in k):
            rep.findings.append(f)
        elif f.rule == "ANCHOR":
            rep.findings.append(f)
    rep.obligations += sub.obligations
    rep.discharged += sub.discharged
    return ("Hash recipes (ordered feeds into the hasher) of every TypeHash/AlignHash impl extracted by abstract interpretation; conformance of "
            "derived recipes to the item definition, dependence on every parameter, distinct heads, documented aliases, "
            "and the header comparison of both hashes. Different recipes give different hashes up to an xxh3-64 collision (not decided).")


def check_C06(ctx):
    rep = ctx.rep
    rep.rule("GOLDEN", "writer wire terms (order, widths, tag constants, padding points, leaf encoders), hash recipes, header atoms and constants of the built-in impls = spec/format_v1_1.json (format v1.1 as read against the README)")
    rep.rule("G6", "MAGIC, MAGIC_REV, VERSION = published values")
    rep.rule("DERIVED", "derived writers: fields in declaration order, usize variant index in declaration order, zero-copy = align + memory image (corpus)")
    n = golden_compare(ctx, ("writers", "readers_leaf", "type_hash", "align_hash", "header", "consts", "units"))
    # folded units of the closed-type universe (the padding rule for concrete types)
    try:
        uu, cname = units_universe(ctx)
        if cname == "wunits":
            cur_units = golden.closed_units(uu, cname)
            spec_units = golden.load().get("units_closed", {})
            for k, want in spec_units.items():
                got = cur_units.get(k)
                ok = got == want
                rep.oblige(ok)
                n += 1
                if not ok:
                    rep.add("GOLDEN", "unit:" + k, "format v1.1 pads blocks of `%s` to a multiple of %s bytes; the current tree uses %s" % (k, want, got))
    except ExportError as ex:
        rep.add("GOLDEN", "units:universe", "the universe of closed zero-copy types no longer compiles: " + str(ex)[-300:])
    rep.floor("golden entries compared", n, 200)
    u, w, ts, exp = ctx.triples("default", CORPUS)
    rules_header.rules_G6(u, rep)
    # the padding arithmetic itself, on the units where "the next multiple" and the mask form differ
    rep.floor("padding-format grid points", rules_align.rule_pad_format(u, rep), 100)
    # derived writers against the definition
    nd = 0
    for t in ts:
        if t.crate == "epserde" or t.ser_impl is None:
            continue
        st = t.ser_impl.self_ty
        if st[0] != "adt" or st[1] not in u.adts:
            continue
        c, aj = u.adts[st[1]]
        for p in t.paths.get("ser", []) or []:
            if p.outcome != "ok":
                continue
            vsel = [s_ for s_ in p.selectors if s_[0] == "variant" and s_[1] == ("self",)]
            atoms = p.atoms
            if any(a.k == "Z" and a.ty == st for a in atoms):
                ok = len(atoms) == 2 and atoms[0].k == "A" and atoms[0].ty == st and atoms[1].k == "Z" and atoms[1].ty == st and atoms[1].n == interp.C(1)
                rep.oblige(ok)
                nd += 1
                if not ok:
                    rep.add("DERIVED", t.key + ":zero", "derived zero-copy writer of `%s` does not emit align + one memory image of Self: %s" % (t.key, p.show()), t.loc)
                continue
            if aj["kind"] == "enum":
                if not vsel:
                    continue
                vi = vsel[0][3]
                var = [v for v in aj["variants"] if v["index"] == vi][0]
                ok = bool(atoms) and atoms[0].k == "F" and atoms[0].ty == ("prim", "usize") and rules_wire.const_of(atoms[0].src) == vi
                want = [c.ty(f["ty"]) for f in var["fields"]]
                got = [a.ty for a in atoms[1:]]
                ok = ok and got == want and all(a.k == "F" for a in atoms[1:])
            else:
                var = aj["variants"][0]
                want = [c.ty(f["ty"]) for f in var["fields"]]
                got = [a.ty for a in atoms]
                ok = got == want and all(a.k == "F" for a in atoms)
                # each atom comes from the field of the same index
                for i, a in enumerate(atoms):
                    fs = rules_wire.field_of_src(a.src)
                    if fs is not None and fs[1] != i:
                        ok = False
            rep.oblige(ok)
            nd += 1
            if not ok:
                rep.add("DERIVED", "%s:%s" % (t.key, p.cond_show()), "derived writer of `%s` emits [%s]; declaration order requires %s%s"
                        % (t.key, p.gshow(), "usize variant index then " if aj["kind"] == "enum" else "", [facts.ty_str(x) for x in want]), t.loc)
    rep.floor("derived writer paths checked against declaration order", nd, 45)
    return ("Format v1.1 as a golden set of extracted terms: every built-in writer term (incl. tag constants and native-endian leaf encoders), hash recipe, "
            "header atom and constant is compared with spec/format_v1_1.json; derived writers are compared with the declaration. Together with C01/C02 "
            "(readers equal writers) this is the static content of 'files of this format version stay readable'. Byte-for-byte comparison with an independent encoder over values is not decided.")


def units_universe(ctx):
    tier = ctx.tier
    name = "wunits" if tier == "quick" else "wunitst"
    key = ("units", tier)
    if key not in ctx._u:
        p = ctx.facts.witness(name, gen=lambda d: gen_units.generate(d, tier))
        ctx._u[key] = facts.load_universe([ctx.facts.epserde("default"), p, ctx.facts.witness("wcorpus", os.path.join(common.VERIF, "witness", "wcorpus"))])
    return ctx._u[key], name


def check_C07(ctx):
    rep = ctx.rep
    rep.rule("W4", "every raw block Z(T,_) is immediately preceded by the alignment point of T's own unit, on the writer and both readers")
    rep.rule("M1", "folded <T as MaxSizeOf>::max_size_of() of every closed zero-copy type of the universe is a power of two, >= align_of::<T>() (rustc layout), >= the unit of every component")
    rep.rule("M2", "derived max_size_of returns the maximum over align_of::<Self>() and the unit of every field")
    rep.rule("ALIGN", "all four align implementations move by pad_align_to(position of self, unit(T)); writers emit only zero bytes; a path that emits nothing knows the padding is zero")
    rep.rule("POS", "position-tracking wrappers advance by exactly the bytes moved, after success; Serialize::serialize returns the position after the last write")
    rep.rule("W1", "both readers consume exactly the atoms the writer emits, in every static/selector case (either deserializer consumes exactly the bytes written)")
    wire_props(ctx, ("full", "eps"), ("W1", "W4", "W5-view"), 56)
    try:
        u, cname = units_universe(ctx)
    except ExportError as ex:
        msg = "\n".join(l for l in str(ex).splitlines() if l.startswith("error"))[:500]
        rep.add("M1", "universe", "the universe of closed zero-copy types no longer compiles (some type stopped being zero-copy?): " + msg)
        u, cname = ctx.universe("default", CORPUS), None
    if cname:
        n = rules_align.rule_M1(u, rep, cname)
        rep.floor("closed zero-copy types folded", n, 140)
    nd = rules_align.rule_M2(u, rep)
    rep.floor("derived zero-copy units checked", nd, 15)
    rules_align.rule_align_impls(u, rep)
    rules_align.rule_pos_accounting(u, rep)
    rep.rule("PAD", "pad_align_to, folded by constant propagation on a grid of offsets and power-of-two units (small, around multiples, around 2^32, top of usize), is (-offset) mod unit; an unfoldable body is left undecided")
    rules_align.rule_pad_function(u, rep)
    rep.rule("WRITE-BYTES", "padding is emitted only at alignment points: the writer primitive write_bytes emits exactly the slice it is given")
    rep.floor("default write_bytes paths", rules_align.rule_write_bytes_plain(u, rep), 1)
    rep.floor("default write paths", rules_align.rule_write_delegates(u, rep), 1)
    if ctx.tier == "thorough":
        r = generated_corpus(ctx, rep, ("W4",))
        if r:
            kg = rules_align.rule_M2(r[0], rep)
            rep.count("generated_zero_copy_units", kg)
            rep.floor("derived zero-copy units of the generated corpus", kg, 45)
    return ("Alignment units folded by constant propagation over rustc's layouts for a universe of closed zero-copy types; the four align implementations "
            "and the position-tracking wrappers checked by abstract interpretation (same padding expression, zero bytes, exact position accounting); "
            "adjacency of alignment points and raw blocks on all three sides of every impl. The arithmetic of pad_align_to is folded on a finite grid of offset/unit pairs only "
            "(minimality for every pair is not decided).")


def check_C16(ctx):
    import json
    rep = ctx.rep
    rep.rule("H4", "&[T] and SerIter<T,_> delegate both hashes to Vec<T>; their SerType is Vec<T> (so the header is that of the vector)")
    rep.rule("W1-view", "wire term of &[T] is F(Vec<T>) built from self's own pointer and length; wire terms of SerIter (Zero and Deep helper) equal those of Vec<T> for the same copy kind")
    rep.rule("LEN", "SerIter: the announced length is written before iterating; after the loop `yielded != announced` returns IteratorLengthMismatch{actual: yielded, expected: announced}; success requires equality")
    rep.rule("ASSOC", "derived SerType substitutes <A as SerializeInner>::SerType for parameter-typed fields (corpus aliases)")
    u, w, ts, exp = ctx.triples("default", CORPUS)
    recs = rules_hash.collect(u, rep)
    rules_hash.rule_H4(u, recs, rep)
    rep.rule("SINGLE-PASS", "every entry point of Serialize (serialize, serialize_with_schema, store, and the blanket serialize_on_field_write) traverses self exactly once on every successful path: SerIter can be serialized once only")
    rep.floor("serialization entry paths", rules_loader.rule_single_pass(u, rep), 2)
    rep.rule("WRITE-BYTES", "the writer primitive write_bytes emits exactly the slice it is given: the per-item writes of SerIter then add up to the single block write of Vec<T>")
    rep.floor("default write_bytes paths", rules_align.rule_write_bytes_plain(u, rep), 1)
    for t in ts:
        if t.crate == "epserde" and t.des_impl is None:
            rules_wire.check_triple(t, exp, rep, modes=(), want=("W5-view", "PROB"))
    byname = {}
    for t in ts:
        byname[t.key] = t
    # --- &[T]
    tsl = [t for t in ts if t.crate == "epserde" and t.ser_impl is not None and t.ser_impl.self_ty[0] == "ref" and t.ser_impl.self_ty[2][0] == "slice"]
    rep.floor("slice view impl", len(tsl), 1)
    for t in tsl:
        elem = t.ser_impl.self_ty[2][1]
        for p in t.paths.get("ser", []) or []:
            if p.outcome == "panic":
                continue
            ok = p.outcome == "ok" and len(p.atoms) == 1 and p.atoms[0].k == "F" and p.atoms[0].ty[0] == "adt" and p.atoms[0].ty[1] == "alloc::vec::Vec" and p.atoms[0].ty[2][0] == elem
            rep.oblige(ok)
            if not ok:
                rep.add("W1-view", "slice:term", "`&[T]` is not written as exactly one Vec<T>: %s (%s)" % (p.show(), p.outcome), t.loc)
                continue
            src = p.atoms[0].src
            lab = guards_label(src)
            ok = "self" in lab and lab.count("len(self)") >= 2 and "elems" not in lab.replace("ptrto", "")
            good = isinstance(src, tuple) and src and src[0] == "call" and src[1] == "from_raw_parts" and len(src[2]) == 3 and \
                src[2][1] == ("len", ("self",)) and src[2][2] == ("len", ("self",)) and isinstance(src[2][0], tuple) and src[2][0][0] == "ptrto" and src[2][0][1] == ("elems", ("self",))
            direct = src == ("self",)
            rep.oblige(good or direct)
            if not (good or direct):
                rep.add("W1-view", "slice:source", "the vector written for `&[T]` is not built from self's own pointer and length (len, len): %s" % lab, t.loc)
    # --- SerIter helpers against Vec helpers
    helper = "epserde::ser::SerializeHelper"
    terms = {}
    for im in u.impls_by_trait.get(helper, []):
        st = im.self_ty
        kind = facts.ty_str(im.trait_args[1]) if len(im.trait_args) > 1 else "?"
        name = "SerIter" if (st[0] == "adt" and st[1].endswith("::SerIter")) else "Vec" if (st[0] == "adt" and st[1] == "alloc::vec::Vec") else None
        if name is None:
            continue
        b = u.body(im.item_id("_serialize_inner"))
        try:
            ip, paths = w.extract(b, "ser")
        except interp.Unsupported as ex:
            rep.add("EXTRACT", "%s:%s" % (name, kind), "cannot extract %s helper of %s: %s" % (kind, name, ex), im.loc())
            continue
        terms[(name, kind)] = (im, paths)
    n = 0
    for kind in ("Zero", "Deep"):
        a, b_ = terms.get(("SerIter", kind)), terms.get(("Vec", kind))
        if a is None or b_ is None:
            rep.add("W1-view", "seriter:%s:missing" % kind, "missing %s helper impl for SerIter or Vec" % kind)
            continue
        sa = [p for p in a[1] if p.outcome == "ok"]
        sb = [p for p in b_[1] if p.outcome == "ok"]
        ka = set(tuple(x.key() for x in rename_T(p.atoms)) for p in sa)
        kb = set(tuple(x.key() for x in rename_T(p.atoms)) for p in sb)
        ok = ka == kb and len(ka) == 1
        rep.oblige(ok)
        n += 1
        if not ok:
            rep.add("W1-view", "seriter:%s" % kind, "SerIter (%s elements) writes [%s] but Vec<T> writes [%s]" % (kind, " | ".join(p.show() for p in sa), " | ".join(p.show() for p in sb)), a[0].loc())
        elif len(rep.samples) < 8:
            rep.sample({"SerIter_vs_Vec": kind, "term": sa[0].show()})
        # LEN: the loop runs over the wrapped iterator itself, to exhaustion (no take/skip/filter/... in between:
        # such an adaptor bounds or changes the number of items counted, so the mismatch test no longer sees them)
        for p in a[1]:
            for ev in p.raw.events:
                if ev[0] == "Loop" and isinstance(ev[1], tuple) and ev[1] and ev[1][0] == "itercount":
                    itv = ev[1][2]
                    own = isinstance(itv, tuple) and itv and itv[0] == "field" and itv[1] == ("self",)
                    rep.oblige(own)
                    if not own:
                        rep.add("LEN", "seriter:%s:adaptor" % kind, "SerIter (%s): the item loop runs over `%s`, not over the wrapped iterator itself: items the adaptor hides are neither written nor counted" % (kind, guards.label(itv)[:120]), a[0].loc())
                        break
        # LEN: error path
        errs = [p for p in a[1] if p.outcome == "err"]
        okp = False
        for p in errs:
            out = guards.outcome_of(u, p.raw)
            if out[0] == "err" and out[1].endswith("IteratorLengthMismatch"):
                announced = None
                for at in p.atoms:
                    if at.k == "F" and at.ty == ("prim", "usize"):
                        announced = guards.label(at.src)
                        break
                pay = out[2]
                rows = [guards.row_str(guards.norm_cond(c)) for c in p.raw.conds]
                cond_ok = any(("items_yielded" in r and " Ne " in r and announced and announced in r) for r in rows)
                if pay.get("actual", "").startswith("items_yielded") and pay.get("expected") == announced and cond_ok:
                    okp = True
                else:
                    rep.add("LEN", "seriter:%s:payload" % kind, "SerIter (%s): length mismatch is reported as %s under %s; expected actual=items yielded, expected=%s under `yielded != announced`" % (kind, pay, rows[-1:] , announced), a[0].loc())
        rep.oblige(okp)
        if not okp and not any(f.rule == "LEN" for f in rep.findings):
            rep.add("LEN", "seriter:%s:missing" % kind, "SerIter (%s): no path returns IteratorLengthMismatch when the iterator yields a different number of items than announced" % kind, a[0].loc())
        # success requires equality
        for p in sa:
            rows = [guards.row_str(guards.norm_cond(c)) for c in p.raw.conds]
            eq = any("items_yielded" in r and " Eq " in r for r in rows)
            rep.oblige(eq)
            if not eq:
                rep.add("LEN", "seriter:%s:success" % kind, "SerIter (%s) can succeed without having established yielded == announced (%s)" % (kind, rows), a[0].loc())
    rep.floor("SerIter/Vec helper pairs compared", n, 2)
    # LEN on the dispatching impl: every successful path of <SerIter as SerializeInner>::_serialize_inner runs the item
    # loop over the wrapped iterator (a shortcut that answers from the announced length alone never polls it, so a
    # mismatch goes unnoticed)
    nser = 0
    for t in ts:
        im = t.ser_impl
        if im is None or not (im.self_ty[0] == "adt" and im.self_ty[1].endswith("::SerIter")):
            continue
        for p in t.paths.get("ser") or []:
            if p.outcome != "ok":
                continue
            nser += 1
            polled = any(ev[0] == "Loop" and isinstance(ev[1], tuple) and ev[1] and ev[1][0] == "itercount" for ev in p.raw.events)
            rep.oblige(polled)
            if not polled:
                rep.add("LEN", "seriter:dispatch:%s" % p.cond_show(), "SerIter::_serialize_inner has a successful path (%s) on which the wrapped iterator is never polled: the number of items it yields is not compared with the announced length" % (p.cond_show() or "unconditional"), t.loc)
    rep.floor("successful SerIter writer paths", nser, 1)
    # derived SerType aliases
    expj = json.load(open(os.path.join(common.VERIF, "witness", "wcorpus", "expect.json")))
    m = 0
    for name, want in expj["aliases"].items():
        if not name.startswith("S"):
            continue
        ent = u.aliases.get("wcorpus::" + name)
        got = None
        if ent:
            c, aj = ent
            l = aj.get("layout")
            got = c.raw_tys[l["norm"]]["s"] if l else None
        ok = got == want
        rep.oblige(ok)
        m += 1
        if not ok:
            rep.add("ASSOC", name, "SerType alias %s normalises to `%s`, expected `%s`" % (name, got, want))
    rep.floor("SerType equalities", m, 6)
    if ctx.tier == "thorough":
        generated_corpus(ctx, rep, (), assoc=True)
    return ("The two write-only views are compared with the vector as wire terms and hash recipes (sibling agreement), their SerType is normalised by rustc, "
            "and the iterator length check is extracted as a guard row. Byte equality on concrete contents follows from term equality plus shared leaf writers; it is not separately decided.")


def guards_label(v):
    return guards.label(v)


def rename_T(atoms):
    """atoms with every type parameter renamed to a canonical name (SerIter<'a,T,I> vs Vec<T> have different indices)"""
    out = []
    for a in atoms:
        b = wire.Atom(a.k, canon_params(a.ty), a.n, a.src, a.atom, a.mode, a.sp, rename_T(a.body) if a.body else None, a.name, a.content)
        out.append(b)
    return out


def canon_params(t):
    if not isinstance(t, tuple) or not t:
        return t
    if t[0] == "param":
        return ("param", t[1], 0)
    return tuple(canon_params(x) if isinstance(x, tuple) else x for x in t)


DESER_SCOPE = ("epserde/src/deser/", "epserde/src/impls/")
SER_SCOPE = ("epserde/src/ser/", "epserde/src/impls/")


def check_C12(ctx):
    rep = ctx.rep
    rep.rule("ALIGN-GUARD", "the slice-backed align returns Ok only after establishing `address of remaining data % unit(T) == 0` (checked after the skip) and AlignmentError exactly otherwise")
    rep.rule("W4", "every block carved by an eps reader is immediately preceded by align::<T'> with unit(T') = unit(T), its result propagated")
    rep.rule("S-WHO", "Error::AlignmentError is constructed only by the slice-backed align and by load_mem's pre-check")
    rep.rule("LOADMEM-PRECHECK", "load_mem rejects types whose native alignment exceeds that of the heap region, before touching the file")
    rep.rule("M1", "unit(T) is a multiple of align_of::<T>() for the universe of closed zero-copy types (so `multiple of the unit` implies `aligned for the type`)")
    ts = wire_props(ctx, ("eps",), ("W4",), 56, w4_sides=("eps",))
    u = ctx.universe("default", CORPUS)
    rules_eps.rule_align_guard(u, rep)
    role, ab = rules_eps.slice_align_impl(u)

    def allowed(b):
        return (ab is not None and b.id == ab.id) or b.d.get("name") == "load_mem"
    n = rules_err.rule_who_constructs(u, rep, "epserde::deser::Error", "AlignmentError", allowed, "S-WHO")
    rep.floor("AlignmentError construction sites", n, 2)
    rules_eps.rule_load_mem_precheck(u, rep)
    try:
        uu, cname = units_universe(ctx)
        rules_align.rule_M1(uu, rep, cname, mode="borrow")
        rep.rule("M2", "derived max_size_of = max over align_of::<Self>() and the unit of every field (the unit of a derived zero-copy type is at least its native alignment)")
        rules_align.rule_M2(uu, rep)
    except ExportError as ex:
        rep.add("M1", "universe", "the universe of closed zero-copy types no longer compiles: " + str(ex)[-300:])
    # the result of every align call of a reader is propagated
    rules_err.rule_PERR(u, rep, DESER_SCOPE, only_callees=("align",))
    # ... nor lost in an iterator adaptor on the eps side (flat_map / flatten over Results)
    rules_err.rule_err_adaptors(u, rep, DESER_SCOPE, errs=rules_err.DESER_ERRS, only_fn=rules_err.takes_slice_cursor)
    return ("Guard of the only address-alignment check extracted from all paths of the slice-backed align; dominance of that call over every carve (adjacency in the wire term "
            "of every eps reader); who-may-construct for AlignmentError; unit >= native alignment over a universe of closed types. The per-placement outcome table is not decided.")


def check_C03(ctx):
    rep = ctx.rep
    rep.rule("PROV", "on every eps path that consumes a raw block, the returned value is a reinterpretation (align_to / index / str transmute) of exactly the bytes consumed at the cursor")
    rep.rule("HEAPFREE", "such paths contain no call into `alloc` and build no vector")
    rep.rule("RAW-CARVE", "no eps reader builds slices or pointers from the input buffer by hand (from_raw_parts / pointer arithmetic on backend.data)")
    rep.rule("W1 / W4", "the block has the written length (count linked to the length prefix) and is preceded by the alignment point of its unit")
    rep.rule("ALIGN-GUARD", "the alignment point of the slice-backed reader checks the absolute address")
    rep.rule("W5-view", "a write-only view (slice, SerIter) writes the stream of the SerType it is read back as, alignment points included: the eps reader of that type then finds every borrowed block where the view wrote it")
    ts = wire_props(ctx, ("eps",), ("W1", "W4", "PROB", "W5-view"), 56, w4_sides=("eps",), prob_sides=("eps",))
    u = ctx.universe("default", CORPUS)
    n = rules_eps.rule_eps_borrow(u, ts, rep)
    rep.floor("zero-copy eps paths analysed", n, 20)
    rules_eps.rule_align_guard(u, rep)
    rep.rule("HEAP-SKELETON", "eps readers reserve skeleton vectors for exactly the element count read from the stream")
    rules_eps.rule_skeleton_capacity(u, rep)      # no floor: a reader built with collect() reserves nothing by hand
    # the guard compares the address with unit(T): the borrowed &T is aligned only if unit(T) >= align_of::<T>()
    rep.rule("M1 / M2", "folded alignment unit of every closed zero-copy type is a multiple of its native alignment (rustc layout); derived units = max over align_of::<Self>() and the field units: the address check of the alignment point then implies an aligned reference")
    try:
        uu, cname = units_universe(ctx)
        nm = rules_align.rule_M1(uu, rep, cname, mode="borrow")
        rep.floor("closed zero-copy types folded", nm, 140)
        rules_align.rule_M2(uu, rep)
    except ExportError as ex:
        msg = "\n".join(l for l in str(ex).splitlines() if l.startswith("error"))[:500]
        rep.add("M1", "universe", "the universe of closed zero-copy types no longer compiles: " + msg)
    return ("Every borrowing path of every eps reader (built-in and corpus) is checked for provenance of the result from the consumed input bytes, absence of allocation, "
            "absence of hand-made slices, written length and alignment point. Measured allocation amounts of the deep skeleton are not decided.")


def check_C11(ctx):
    rep = ctx.rep
    rep.rule("W1", "every byte the writer emits has a consuming event in both readers (so every cut lands inside or before some read)")
    rep.rule("P-ERR", "in deser/ and impls/: no Result of a read is discarded, tested-and-forgotten (is_ok/ok) or defaulted")
    rep.rule("S-WHO", "std::io::Read::read (the short-read form) is not called in deser/ and impls/")
    rep.rule("RAW-CARVE", "eps readers touch the input only through bounds-checked slicing/indexing (no from_raw_parts / get_unchecked on backend.data); unknown uses of the backend are reported")
    rep.rule("WIRE-*", "every peek is consumed by a skip of the same amount and the position advances by the same amount (nothing is read twice or past the cursor)")
    rep.rule("MAPLEN", "the mmap loader maps the file from offset 0 for exactly metadata().len() bytes (no rounding: the kernel zero-extends a longer mapping to the page end)")
    ts = wire_props(ctx, ("full", "eps"), ("W1", "PROB"), 56)
    u = ctx.universe("default", CORPUS)
    rules_eps.rule_eps_borrow(u, ts, rep, props=("raw",))
    n = rules_err.rule_PERR(u, rep, DESER_SCOPE, errs=rules_err.DESER_ERRS)
    rep.floor("Result-returning call sites in deser/impls", n, 60)
    rep.rule("ERR-DROP", "MIR after drop elaboration: no Result<_, crate error> produced by a call or assignment reaches the Drop of its local (scope end or overwrite) on a normal path without having been moved, matched or borrowed")
    nd = rules_err.rule_err_drop(u, rep, DESER_SCOPE, errs=rules_err.DESER_ERRS)
    rep.floor("Result-typed MIR locals tracked in deser/impls", nd, 100)
    rep.rule("ERR-TO-OK", "no function of deser/ and impls/ returns Ok on a path where it has observed the Err of a callee (a failed read is never turned into a value)")
    rules_loader.rule_err_to_ok(u, rep, DESER_SCOPE, errs=rules_err.DESER_ERRS)
    rules_err.rule_who_calls(u, rep, {"std::io::Read::read", "std::io::Read::read_to_end", "std::io::Read::read_buf"}, DESER_SCOPE, "S-WHO",
                             "short reads must be handled by read_exact, whose contract turns a premature end of file into an error")
    n = rules_loader.rule_maplen(u, rep)
    rep.floor("mapping length/offset sites in Deserialize::mmap", n, 2)
    rep.rule("ALIGN", "the stream reader's align consumes its padding from the backend at once (a cut inside the padding is then a failed read) and both readers move by pad_align_to(position, unit)")
    align_pair(ctx, ("ReaderWithPos", "SliceWithPos"))
    rep.rule("STORE", "store writes nothing but the serialized stream (one serialize call): bytes no reader consumes would make a cut inside them invisible")
    rules_loader.rule_store(u, rep)
    rep.rule("CUR-READ", "the crate's own std::io::Read implementation (AlignedCursor) hands out only bytes before its logical end: a prefix held in it ends where the prefix ends")
    subc = Report("C11", ctx.tier)
    rules_cursor.rule_cursor(ctx.universe(), subc)
    for f in subc.findings:
        if f.rule in ("CUR-READ", "ANCHOR"):
            rep.findings.append(f)
    rep.oblige(not any(f.rule == "CUR-READ" for f in subc.findings))
    return ("Static content of 'a strict prefix is never turned into a value': sibling agreement of the byte consumption, error discipline of every read, closed list of ways "
            "the eps reader touches the input (bounds-checked), exact mapping length. Which error each individual cut yields is not decided.")


def check_C18(ctx):
    rep = ctx.rep
    rep.rule("ALIGN", "SchemaWriter::align moves by the same padding expression as the default and writes only zero bytes (sibling agreement with the default writer)")
    rep.rule("FORWARD", "write delegates exactly once to _serialize_inner(value, self); write_bytes forwards the slice unchanged; write_all/flush/pos forward to the wrapped writer")
    rep.rule("ROW", "rows: align -> {offset: pos(), size: padding, align: 1} recorded before the bytes, only when padding != 0; write -> inserted at the row count taken before the nested write, {offset: pos() before, size: pos() after - offset}; write_bytes -> {offset: pos(), size: value.len(), align: V::max_size_of()} recorded before the bytes")
    rep.rule("RENDER", "Schema::debug indexes the data only with row.offset..row.offset+row.size")
    u = ctx.universe()
    rules_schema.rules_schema_writer(u, rep)
    rules_schema.rules_schema_render(u, rep)
    rep.rule("ENTRY", "Serialize::serialize and serialize_with_schema put the same atoms on the backend in the same order and both end by flushing it")
    rep.rule("BYPASS", "inside a writer, a nested value reaches the stream through backend.write(name, value), where the recording writer opens its row, never through value._serialize_inner(backend) directly (delegating the whole of self is not nesting)")
    _u2, _w2, ts18, _e2 = ctx.triples("default", CORPUS)
    nb18 = rules_schema.rule_no_bypass(u, ts18, rep)
    rep.count("direct_serialize_inner_calls_examined", nb18)
    ne = rules_schema.rule_entry_points(u, rep)
    rep.floor("serialization entry points compared", ne, 2)
    rep.floor("SchemaWriter method paths analysed", rep.counters.get("schema_writer_paths", 0), 6)
    rep.floor("data index sites in the renderers", rep.counters.get("render_index_sites", 0), 2)
    return ("Sibling agreement between the recording writer's overrides and the default WriteWithNames methods (same stream), and dataflow of the recorded rows "
            "(offsets taken from pos() before the bytes, sizes from the bytes written). Tiling for every value and failure-freedom of rendering for every schema/data pair are not decided.")


def check_C08(ctx):
    rep = ctx.rep
    rep.rule("STORE", "store = create+truncate the destination, one buffered serialize of self, failure propagated")
    rep.rule("FLUSH-FWD", "the writer wrappers serialize goes through forward flush to the wrapped writer (store relies on the final flush of serialize to push the BufWriter's tail and report its failure)")
    rep.rule("ARG", "each loader hands deserialize_eps the bytes of the backend at its final place inside the MemCase being built")
    rep.rule("FILL", "copying loaders zero-fill [file_len..capacity) after reading the file and before deserializing")
    rep.rule("MAPLEN", "the mmap loader maps the file from offset 0 for exactly metadata().len() bytes")
    rep.rule("COPY", "load_mem and load_mmap read the file into a region they allocated themselves (raw allocation / anonymous mapping) and never map the file")
    rep.rule("CAP", "copying loaders allocate file_len + pad_align_to(file_len, K), K a positive power of two equal to the allocation alignment")
    rep.rule("SHAPE", "MemCase(structure, backend) in this order, no Drop impl, Send/Sync bounded by S, backends own their memory through a pointer, heap region alignment 64, no method gives away the structure or the backend")
    rep.rule("FLAGS", "every Flags constant is translated to the mmap_rs flag of the same name")
    rep.rule("P-ERR", "results in the loaders and store are propagated")
    rep.rule("ERR-DROP", "MIR after drop elaboration: no Result<_, crate error> produced by a call or assignment reaches the Drop of its local (scope end or overwrite) on a normal path without having been moved, matched or borrowed")
    nload = 0
    for config, floor in (("default", 3), ("nommap", 1)):
        try:
            u = ctx.universe(config)
        except ExportError as ex:
            rep.add("BUILD", config, "feature configuration %s does not compile: %s" % (config, str(ex)[-300:]))
            continue
        sub = Report("C08", ctx.tier)
        n = rules_loader.rule_loader_paths(u, sub, want=("ARG", "FILL"))
        rules_loader.rule_capacity(u, sub)
        rules_loader.rule_copying_loaders(u, sub)
        rules_loader.rule_memcase_shape(u, sub)
        rules_loader.rule_store(u, sub)
        rules_align.rule_flush_forward(u, sub)
        if config == "default":
            nm = rules_loader.rule_maplen(u, sub)
            sub.floor("mapping length/offset sites in Deserialize::mmap", nm, 2)
            ok = rules_loader.rule_flags(u, sub)
            if not ok:
                sub.add("ANCHOR", "mmap_flags", "cannot locate the flag translation function")
        # the file-level entry points only (check_header and the (de)serializers proper belong to C10/C11/C13/C14)
        not_loader = lambda b: (b.d.get("name") or "").split("::")[-1] not in ("load_full", "load_mem", "load_mmap", "mmap", "store", "mmap_flags", "encase", "as_ref") and "closure" not in b.id
        rules_err.rule_PERR(u, sub, ("epserde/src/deser/mod.rs", "epserde/src/ser/mod.rs", "epserde/src/deser/mem_case.rs"), exclude_fn=not_loader)
        rules_err.rule_err_drop(u, sub, ("epserde/src/deser/mod.rs", "epserde/src/ser/mod.rs", "epserde/src/deser/mem_case.rs"), exclude_fn=not_loader)
        sub.floor("loaders analysed [%s]" % config, n, floor)
        sub.floor("loader paths on which the zero-fill obligation was decided [%s]" % config, sub.counters.get("fill_paths", 0), 4 if config == "default" else 2)
        for f in sub.findings:
            f.key = "%s[%s]" % (f.key, config) if config != "default" else f.key
            rep.findings.append(f)
        rep.obligations += sub.obligations
        rep.discharged += sub.discharged
        rep.floors += sub.floors
        for k, v in sub.counters.items():
            rep.counters["%s[%s]" % (k, config)] = v
        nload += n
    return ("Path rules over the three loaders and store in both feature configurations (default and no-mmap), plus shape rules on MemCase/MemBackend and the flag translation. "
            "Equality of loaded and directly deserialized structures as values, and what the OS does with mmap flags, are not decided.")


def check_C09(ctx):
    rep = ctx.rep
    rep.rule("LEAK", "on every path of a loader, once the backend has been written into the MaybeUninit MemCase, the function leaves only through assume_init or after drop_in_place of that field")
    rep.rule("RAW", "no fallible step between a raw allocation and the value that takes ownership of it")
    rep.rule("ALLOC-LAYOUT", "load_mem: alloc(Layout(S, A)) handed to Vec<E>::from_raw_parts(_, len, cap) with A == align_of::<E>(), cap == S / size_of::<E>() exactly, len == cap (E = element type of MemBackend::Memory): released as allocated")
    rep.rule("SHAPE", "drop order structure -> backend by declaration order, no Drop impl, no API that separates the structure from its backend")
    rep.rule("WITNESS", "compile-fail probes: borrowed eps results cannot outlive their buffer; references obtained from a MemCase cannot outlive it")
    rep.rule("S-WHO", "no forget / leak / into_raw / ManuallyDrop in the loaders and the MemCase module (where backends are created and owned)")
    u = ctx.universe("default")
    n = rules_loader.rule_loader_paths(u, rep, want=("LEAK", "RAW"))
    rep.floor("loaders analysed", n, 3)
    rules_loader.rule_memcase_shape(u, rep)
    rep.rule("LEAK-PARTIAL", "deser/ and impls/: a loop that writes droppable values into uninitialised storage (ptr::write / MaybeUninit::write) and can leave early must maintain the length inside the loop or drop the written prefix itself; otherwise a failed load leaks what the elements own")
    npl = rules_loader.rule_partial_leak(u, rep, DESER_SCOPE)
    rep.floor("loops filling uninitialised storage with droppable values", npl, 2)
    rep.rule("COPY", "load_mem and load_mmap own a private copy of the file (read into their own region, the file itself is never mapped): the backing memory stays unchanged whatever happens to the file")
    rules_loader.rule_copying_loaders(u, rep)
    na = rules_loader.rule_alloc_layout(u, rep)
    rep.floor("raw allocation -> Vec::from_raw_parts sites in load_mem", na, 1)
    try:
        u2 = ctx.universe("nommap")
        sub = Report("C09", ctx.tier)
        n2 = rules_loader.rule_loader_paths(u2, sub, want=("LEAK", "RAW"))
        rules_loader.rule_alloc_layout(u2, sub)
        for f in sub.findings:
            f.key = "%s[nommap]" % f.key
            rep.findings.append(f)
        rep.obligations += sub.obligations
        rep.discharged += sub.discharged
    except ExportError as ex:
        rep.add("BUILD", "nommap", "feature configuration std,derive does not compile: %s" % str(ex)[-300:])
    # nobody forgets / leaks a backend
    bad = 0
    for b in u.bodies.values():
        if b.d.get("krate") != "epserde" or b.thir is None or not rules_err.in_scope(b, ("epserde/src/deser/mod.rs", "epserde/src/deser/mem_case.rs")):
            continue
        acc = []
        rules_err.calls_in(b.crate, b.thir["root"], acc)
        for (dj, rj, e) in acc:
            if dj.get("name") in ("forget", "leak", "into_raw", "into_raw_parts") and dj.get("krate") in ("core", "alloc", "std"):
                rep.oblige(False)
                rep.add("S-WHO", "%s:%s" % (b.n, dj.get("name")), "`%s` calls %s: memory handed to the loaders must be released by ordinary drops" % (b.n, dj.get("n")), b.crate.span(e["sp"]))
                bad += 1
    rep.oblige(bad == 0)
    from . import witness
    witness.run_probes(ctx, rep, "C09")
    return ("Ownership path rules over the loaders (backend released on every exit, raw allocations owned before any fallible step), shape rules on MemCase, and "
            "compile-fail witnesses for the lifetime clauses. OS-level unmapping is not decided.")


def check_C13(ctx):
    rep = ctx.rep
    rep.rule("P-ERR", "in ser/ and impls/: no Result is discarded, tested-and-forgotten or defaulted")
    rep.rule("ERR-TO-OK", "no function of ser/ and impls/ returns Ok on a path where it has observed the Err of a callee")
    rep.rule("S-WHO", "std::io::Write::write (the short-write form) is never called in ser/ and impls/: short writes and Interrupted are handled by write_all")
    rep.rule("ALIAS-OWNER", "an owning container built over borrowed memory is wrapped in ManuallyDrop at creation or forgotten before any fallible step")
    rep.rule("BLANKET", "the blanket WriteNoStd impl calls exactly Write::write_all / Write::flush and maps their result")
    u = ctx.universe("default", CORPUS)
    n = rules_err.rule_PERR(u, rep, SER_SCOPE, errs=rules_err.SER_ERRS)
    rep.floor("Result-returning call sites in ser/impls", n, 60)
    rep.rule("ERR-DROP", "MIR after drop elaboration: no Result<_, crate error> produced by a call or assignment reaches the Drop of its local (scope end or overwrite) on a normal path without having been moved, matched or borrowed")
    nd = rules_err.rule_err_drop(u, rep, SER_SCOPE, errs=rules_err.SER_ERRS)
    rep.floor("Result-typed MIR locals tracked in ser/impls", nd, 100)
    rep.rule("FAIL-FAST", "MIR: after a call returning Result<_, ser::Error> no other such call is reached on a normal path before the first result has been moved, matched or borrowed (no write is issued after a rejected one)")
    nf = rules_err.rule_fail_fast(u, rep, SER_SCOPE, errs=rules_err.SER_ERRS)
    rep.floor("fallible serialization calls whose successor paths were followed", nf, 100)
    rules_err.rule_who_calls(u, rep, {"std::io::Write::write", "std::io::Write::write_vectored"}, SER_SCOPE, "S-WHO",
                             "short writes must be handled by write_all")
    m = rules_loader.rule_err_to_ok(u, rep, SER_SCOPE, errs=rules_err.SER_ERRS)
    rep.floor("Result-returning functions path-checked", m, 60)
    k = rules_loader.rule_alias_owner(u, rep, SER_SCOPE)
    rep.floor("aliasing owners analysed", k, 1)
    # blanket impl
    nb = 0
    for im in u.impls:
        if im.trait and im.trait.endswith("::WriteNoStd") and im.self_ty[0] == "param":
            for meth, want in (("write_all", "write_all"), ("flush", "flush")):
                b = u.body(im.item_id(meth))
                if b is None:
                    continue
                acc = []
                rules_err.calls_in(b.crate, b.thir["root"], acc)
                std_calls = [dj.get("n") for dj, _r, _e in acc if dj.get("krate") == "std"]
                ok = ("std::io::Write::" + want) in std_calls and not any(x in ("std::io::Write::write", "std::io::Write::write_vectored") for x in std_calls)
                rep.oblige(ok)
                nb += 1
                if not ok:
                    rep.add("BLANKET", meth, "the blanket WriteNoStd::%s calls %s; it must go through std::io::Write::%s" % (meth, std_calls, want), b.loc())
    rep.floor("blanket WriteNoStd methods", nb, 2)
    rep.rule("FLUSH-FWD", "every WriteNoStd wrapper around another writer forwards flush to it")
    nfw = rules_align.rule_flush_forward(u, rep)
    rep.floor("flush-forwarding wrappers", nfw, 2)
    rep.rule("ENTRY", "Serialize::serialize and serialize_with_schema both end by flushing the backend (a failing flush is reported by either)")
    rules_schema.rule_entry_points(u, rep)
    return ("Error discipline of the whole serialization side (call-site classification and path check that no observed failure becomes success), who-may-call for the "
            "short-write form, and ownership of aliasing containers. That the accepted bytes form a prefix of the fault-free output is a statement about runs and is not decided.")


def check_C14(ctx):
    rep = ctx.rep
    rep.rule("S-WHO", "std::io::Read::read (short-read form) is never called in deser/ and impls/: fragmentation and Interrupted are delegated to read_exact's contract")
    rep.rule("P-ERR", "in deser/ and impls/, functions of the stream (full-copy) side: no Result is discarded, tested-and-forgotten or defaulted")
    rep.rule("ERR-TO-OK", "no function of deser/ and impls/ returns Ok on a path where it has observed the Err of a callee")
    rep.rule("UNINIT", "set_len that exposes uninitialised elements before a fallible step only for element types without drop glue")
    rep.rule("BLANKET", "the blanket ReadNoStd impl calls exactly Read::read_exact and maps its result")
    u = ctx.universe("default", CORPUS)
    rules_err.rule_who_calls(u, rep, {"std::io::Read::read", "std::io::Read::read_to_end", "std::io::Read::read_buf", "std::io::Read::read_vectored"}, DESER_SCOPE, "S-WHO",
                             "short reads must be handled by read_exact")
    n = rules_err.rule_PERR(u, rep, DESER_SCOPE, errs=rules_err.DESER_ERRS, exclude_fn=rules_err.takes_slice_cursor)
    rep.floor("Result-returning call sites in deser/impls", n, 60)
    rep.rule("ERR-DROP", "MIR after drop elaboration: no Result<_, crate error> produced by a call or assignment reaches the Drop of its local (scope end or overwrite) on a normal path without having been moved, matched or borrowed")
    nd = rules_err.rule_err_drop(u, rep, DESER_SCOPE, errs=rules_err.DESER_ERRS, exclude_fn=rules_err.takes_slice_cursor)
    rep.floor("Result-typed MIR locals tracked in deser/impls", nd, 100)
    rules_loader.rule_err_to_ok(u, rep, DESER_SCOPE, errs=rules_err.DESER_ERRS, exclude_fn=rules_err.takes_slice_cursor)
    k = rules_loader.rule_uninit_exposed(u, rep, DESER_SCOPE)
    rep.floor("set_len sites analysed", k, 1)
    rep.rule("ALIGN", "the stream reader's align reads its padding from the backend (through read_exact) when it is called: a reader failure inside the padding is reported, whatever follows")
    align_pair(ctx, ("ReaderWithPos",))
    rep.rule("ERR-WHO", "the reader's failure reaches the caller as the read error it was converted to: full-copy readers, their helpers and deserialize_full construct no error of their own except InvalidTag (none relabels a failed read)")
    nw = rules_err.rule_reader_refusals(u, rep, "full")
    rep.floor("full-copy readers and helpers examined for constructed errors", nw, 40)
    rep.rule("DOUBLE-CLEANUP", "a reader that drops a written prefix by hand holds no guard value whose Drop impl releases the prefix as well")
    kd = rules_loader.rule_double_cleanup(u, rep, DESER_SCOPE + ("epserde/src/deser/mod.rs",))
    rep.floor("functions with manual prefix cleanup", kd, 2)
    nb = 0
    for im in u.impls:
        if im.trait and im.trait.endswith("::ReadNoStd") and im.self_ty[0] == "param":
            b = u.body(im.item_id("read_exact"))
            if b is None:
                continue
            acc = []
            rules_err.calls_in(b.crate, b.thir["root"], acc)
            std_calls = [dj.get("n") for dj, _r, _e in acc if dj.get("krate") == "std"]
            ok = "std::io::Read::read_exact" in std_calls and not any(x in ("std::io::Read::read", "std::io::Read::read_buf") for x in std_calls)
            rep.oblige(ok)
            nb += 1
            if not ok:
                rep.add("BLANKET", "read_exact", "the blanket ReadNoStd::read_exact calls %s instead of exactly std::io::Read::read_exact" % std_calls, b.loc())
    rep.floor("blanket ReadNoStd methods", nb, 1)
    return ("Fragmentation-independence is delegated to std's read_exact contract by showing that no other read primitive is used; failures are shown to be propagated at every call site; "
            "partially built values are shown not to be dropped uninitialised. Equality of values under each chunking pattern is not decided.")


def check_C17(ctx):
    import json
    rep = ctx.rep
    rep.rule("ZC-GUARD", "every writer path (built-in and corpus) that emits raw memory of V has established <V as SerializeInner>::IS_ZERO_COPY before the first byte of the value is written; a refusing (panic) path with nothing written exists")
    rep.rule("ZC-CONST", "derived IS_ZERO_COPY = repr(C) flag && IS_ZERO_COPY of every field type")
    rep.rule("S-ZC", "built-in impls: literal IS_ZERO_COPY = true only with CopyType::Copy = Zero; ZeroCopy requires Copy + 'static + MaxSizeOf + CopyType<Copy = Zero>")
    rep.rule("CONST", "rustc's const-evaluation of IS_ZERO_COPY for corpus types, including a hand-written fake zero-copy type and a derived zero-copy struct holding it (false), vectors and arrays of it (false)")
    rep.rule("WITNESS", "compile-fail probes for wrongly declared zero-copy types (layer 1); when a probe compiles, layer 2 = CONST false + ZC-GUARD")
    u, w, ts, exp = ctx.triples("default", CORPUS)
    n = rules_zc.rule_zc_guard(u, ts, rep)
    rep.floor("raw emission sites", n, 28)
    rules_zc.rule_szc(u, rep)
    rep.rule("ZC-PARAM", "built-in containers written as one raw image of Self (arrays, tuples): IS_ZERO_COPY depends on the IS_ZERO_COPY of every type parameter contained in the image")
    kc = rules_zc.rule_image_params(u, ts, rep)
    rep.floor("built-in raw-image containers", kc, 10)
    k = rules_zc.rule_derived_const(u, rep)
    rep.floor("derived IS_ZERO_COPY constants", k, 30)
    rules_zc.rule_zerocopy_supers(u, rep)
    expj = json.load(open(os.path.join(common.VERIF, "witness", "wcorpus", "expect.json")))
    m = 0
    for name, want in expj["consts"].items():
        if not name.startswith("ZC_"):
            continue
        b = u.bodies.get("wcorpus::" + name)
        got = b.value.get("v") if (b is not None and b.value) else None
        ok = got == want
        rep.oblige(ok)
        m += 1
        if not ok:
            rep.add("CONST", name, "rustc evaluates %s to %s, expected %s" % (name, got, want))
    rep.floor("const-evaluated IS_ZERO_COPY values", m, 10)
    from . import witness
    witness.run_probes(ctx, rep, "C17")
    if ctx.tier == "thorough":
        r = generated_corpus(ctx, rep, ())
        if r:
            ng = rules_zc.rule_zc_guard(r[0], r[1], rep)
            kg = rules_zc.rule_derived_const(r[0], rep)
            rep.count("generated_raw_emission_sites", ng)
            rep.count("generated_is_zero_copy_constants", kg)
            rep.floor("raw emission sites of the generated corpus", ng, 45)
            rep.floor("derived IS_ZERO_COPY constants of the generated corpus", kg, 300)
    return ("Static guard analysis: raw emission is dominated by the IS_ZERO_COPY check on every writer path; the constant is the conjunction over all fields (derive output of the corpus) "
            "and is const-evaluated by rustc for wrongly declared types; compile-fail witnesses for the derive-time refusals.")


def check_C19(ctx):
    rep = ctx.rep
    rep.rule("CUR-WRITE", "write: Ok(n) => pos' = pos + n, len' = max(len, pos'), buf copied to storage[pos..pos+n], growth by resize(_, T::default()), never shrinks; Err => state unchanged")
    rep.rule("CUR-READ", "read: Ok(0) only when pos >= len; otherwise n = min(buf.len(), len - pos) under pos < len, pos' = pos + n, len unchanged, storage[pos..pos+n] copied into buf[..n]")
    rep.rule("CUR-SEEK", "seek: Start sets the given value; End/Current = length/position + offset through checked_add_signed; failing paths leave the state unchanged; length never changes")
    rep.rule("CUR-ACC / CUR-BASE", "position/len/set_position are plain accessors; as_bytes(_mut) is the first len bytes at the base address of the aligned storage")
    rep.rule("CUR-WHO", "no method other than write changes the length or the storage (as_bytes_mut hands out only the first len bytes)")
    rep.rule("CUR-API", "the Read/Write/Seek impls define only the required methods (and stream_position): provided methods keep std's definition in terms of them")
    rep.rule("SUB", "every usize subtraction in the cursor is guarded by a condition on the same path (or is MAX - x)")
    u = ctx.universe()
    n = rules_cursor.rule_cursor(u, rep)
    rep.floor("cursor method paths analysed", n, 12)
    k = rules_cursor.rule_psub(u, rep)
    rep.floor("subtractions analysed", k, 2)
    rep.rule("CUR-BOUNDS", "every indexing of the storage lies inside it, on every path: the symbolic range and slice length are constant-folded on a grid of states (unit size, allocated units, length, position incl. beyond the capacity and near usize::MAX, buffer length incl. 0) under the path's conditions")
    g = rules_cursor.rule_cursor_bounds(u, rep)
    rep.floor("storage indexings evaluated on the grid", g, 500)
    return ("State-update relations of the cursor's methods extracted from all their paths (abstract interpretation with the old state symbolic) and compared with the relations "
            "std::io::Cursor<Vec<u8>> documents; storage base address; guarded subtractions. Equivalence with std::io::Cursor over operation histories is NOT decided: these are "
            "necessary per-operation conditions only.")


CHECKS = {"C19": check_C19, "C17": check_C17, "C08": check_C08, "C09": check_C09, "C13": check_C13, "C14": check_C14, "C18": check_C18, "C12": check_C12, "C03": check_C03, "C11": check_C11, "C16": check_C16, "C07": check_C07, "C04": check_C04, "C06": check_C06, "C10": check_C10, "C01": check_C01, "C02": check_C02, "C15": check_C15, "C05": check_C05}


def main(argv):
    if not argv:
        print("usage: check <Cnn> [--tier quick|thorough]")
        return 2
    prop = argv[0]
    tier = os.environ.get("VERIF_TIER", "quick")
    if "--tier" in argv:
        tier = argv[argv.index("--tier") + 1]
    if tier not in ("quick", "thorough"):
        tier = "quick"
    try:
        seed = int(os.environ.get("VERIF_SEED", "0"))
    except ValueError:
        seed = 0
    fn = CHECKS.get(prop)
    if fn is None:
        print("unknown property", prop)
        return 2
    ctx = Ctx(prop, tier, seed)
    try:
        explanation = fn(ctx)
    except ExportError as ex:
        # the tree does not build in the analysed configuration: nothing can be decided
        sys.stderr.write("check %s: export failed: %s\n" % (prop, ex))
        ctx.rep.add("BUILD", "export", "the analysed configuration of the repository does not compile: %s" % str(ex)[:300])
        explanation = "export failed"
    except Exception as ex:
        if ex.__class__.__name__ == "WitnessStale":
            sys.stderr.write("check %s: a compiling twin / control of a witness no longer behaves as declared (stale witness, not a verdict): %s\n" % (prop, ex))
            return 3
        traceback.print_exc()
        sys.stderr.write("check %s: internal error (tool defect, not a verdict)\n" % prop)
        return 3
    return ctx.rep.finish(ASSUME_COMMON, explanation, TRUSTED, ctx.facts, seed)
