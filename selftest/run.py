#!/usr/bin/env python3
"""Self-test of the checks (not a registered check): applies one edit at a time to a scratch copy
of /repo and runs the named checks with REPO pointing at it.

  selftest/run.py [name-substring ...]        (default: all)
Breaking edits must be reported by every check listed in `expect`; preserving edits must leave
every check silent. Scratch copies live under /tmp/eps_selftest and are removed after each edit."""
import json
import os
import shutil
import subprocess
import sys

HERE = os.path.dirname(os.path.abspath(__file__))
VERIF = os.path.dirname(HERE)
sys.path.insert(0, HERE)
from mutants import MUTANTS  # noqa

ALL = ["C%02d" % i for i in range(1, 20)]


def registered():
    m = json.load(open(os.path.join(VERIF, "MANIFEST.json")))
    return [c["property_id"] for c in m["checks"]]


def apply(m, root):
    if m.get("patch"):
        # a stored multi-edit refactor (selftest/refactors/<name>/patch.diff), applied like a contributor's patch
        r = subprocess.run(["patch", "-p1", "-s", "-i", m["patch"]], cwd=root, stdout=subprocess.PIPE, stderr=subprocess.STDOUT, text=True)
        if r.returncode != 0:
            raise SystemExit("refactor %s: patch does not apply to /repo: %s" % (m["name"], r.stdout[-300:]))
        return
    for ed in m["edits"]:
        p = os.path.join(root, ed["file"])
        s = open(p).read()
        if s.count(ed["old"]) < 1:
            raise SystemExit("mutant %s: anchor text not found in %s" % (m["name"], ed["file"]))
        s = s.replace(ed["old"], ed["new"], ed.get("count", 1))
        open(p, "w").write(s)


def main():
    sel = sys.argv[1:]
    regs = registered()
    results = []
    rules_fired = {}
    refdir = os.path.join(HERE, "refactors")
    refs = []
    for nm in sorted(os.listdir(refdir)) if os.path.isdir(refdir) else []:
        pf = os.path.join(refdir, nm, "patch.diff")
        if os.path.exists(pf):
            refs.append({"name": "r_" + nm, "kind": "preserving", "patch": pf})
    for m in MUTANTS + refs:
        if sel and not any(x in m["name"] for x in sel):
            continue
        root = "/tmp/eps_selftest/" + m["name"]
        shutil.rmtree(root, ignore_errors=True)
        os.makedirs(os.path.dirname(root), exist_ok=True)
        subprocess.check_call(["rsync", "-a", "--exclude", "target", "--exclude", ".git", "/repo/", root + "/"])
        apply(m, root)
        checks = [c for c in (m.get("run") or (m.get("expect") or regs)) if c in regs]
        if m["kind"] == "preserving":
            checks = regs
        fired = []
        broken = []
        for c in checks:
            env = dict(os.environ, REPO=root)
            p = subprocess.run([os.path.join(VERIF, "check"), c], cwd=VERIF, env=env, stdout=subprocess.PIPE, stderr=subprocess.PIPE, text=True)
            if p.returncode == 1 and "VIOLATION" in p.stdout:
                fired.append(c)
                try:
                    for v in json.load(open(os.path.join(VERIF, "evidence", "violations", c + ".json"))):
                        rules_fired.setdefault(c + ":" + v["rule"], []).append(m["name"])
                except Exception:
                    pass
            elif p.returncode != 0:
                broken.append((c, p.returncode, p.stderr[-300:]))
        shutil.rmtree(root, ignore_errors=True)
        if m["kind"] == "breaking":
            missed = [c for c in m["expect"] if c in regs and c not in fired]
            status = "OK" if not missed and not broken else "MISSED " + ",".join(missed)
        else:
            status = "OK" if not fired and not broken else "FALSE-ALARM " + ",".join(fired)
        if broken:
            status += " BROKEN " + str(broken)
        print("%-44s %-10s fired=%s %s" % (m["name"], m["kind"], ",".join(fired), status), flush=True)
        results.append((m["name"], status))
    if not sel:
        json.dump({"results": results, "rules_fired": {k: sorted(set(v)) for k, v in sorted(rules_fired.items())}},
                  open(os.path.join(HERE, "last_run.json"), "w"), indent=1)
    subprocess.call([os.path.join(VERIF, "tools", "prune_work.sh")])
    bad = [r for r in results if not r[1].startswith("OK")]
    print("%d edits, %d not as expected" % (len(results), len(bad)))
    # restore evidence of the real tree is the caller's business (checks rewrite evidence on every run)
    return 1 if bad else 0


if __name__ == "__main__":
    sys.exit(main())
