"""Edits for the self-test. Each edit must keep the repository compiling."""
STD = "epserde/src/impls/stdlib.rs"
PRIM = "epserde/src/impls/prim.rs"
DES = "epserde/src/deser/mod.rs"
SER = "epserde/src/ser/mod.rs"
DHELP = "epserde/src/deser/helpers.rs"
SHELP = "epserde/src/ser/helpers.rs"
DERIVE = "epserde-derive/src/lib.rs"

MUTANTS = [
    # ---------------------------------------------------------------- breaking
    {"name": "b01_controlflow_reader_tags_shifted", "kind": "breaking", "expect": ["C01", "C02", "C15"],
     "edits": [{"file": STD, "old": "            0 => Ok(core::ops::ControlFlow::Break(B::_deserialize_full_inner(", "new": "            1 => Ok(core::ops::ControlFlow::Break(B::_deserialize_full_inner("},
               {"file": STD, "old": "            1 => Ok(core::ops::ControlFlow::Continue(\n                C::_deserialize_full_inner(backend)?,", "new": "            2 => Ok(core::ops::ControlFlow::Continue(\n                C::_deserialize_full_inner(backend)?,"},
               {"file": STD, "old": "            0 => Ok(core::ops::ControlFlow::Break(B::_deserialize_eps_inner(", "new": "            1 => Ok(core::ops::ControlFlow::Break(B::_deserialize_eps_inner("},
               {"file": STD, "old": "            1 => Ok(core::ops::ControlFlow::Continue(C::_deserialize_eps_inner(", "new": "            2 => Ok(core::ops::ControlFlow::Continue(C::_deserialize_eps_inner("}]},
    {"name": "b02_bound_writer_tag_2_to_3", "kind": "breaking", "expect": ["C01", "C02", "C15"],
     "edits": [{"file": STD, "old": 'backend.write("Tag", &2_u8)?;', "new": 'backend.write("Tag", &3_u8)?;'}]},
    {"name": "b04_option_eps_payload_next_byte", "kind": "breaking", "expect": ["C15"],
     "edits": [{"file": PRIM, "old": "            1 => Ok(Some(T::_deserialize_eps_inner(backend)?)),\n            _ => Err(deser::Error::InvalidTag(tag as usize)),", "new": "            1 => Ok(Some(T::_deserialize_eps_inner(backend)?)),\n            _ => Err(deser::Error::InvalidTag(backend.data[0] as usize)),"}]},
    {"name": "b06_derived_enum_eps_tags_from_9", "kind": "breaking", "expect": ["C05", "C15", "C02"],
     "edits": [{"file": DERIVE, "old": "let tag = (0..variants.len()).collect::<Vec<_>>();", "new": "let tag = (0..variants.len()).collect::<Vec<_>>(); let tag_eps = (0..variants.len()).map(|x| if x >= 8 { x + 1 } else { x }).collect::<Vec<_>>();"},
               {"file": DERIVE, "old": "#tag => Ok(Self::DeserType::<'_>::#variants_names{ #variant_eps_des }),", "new": "#tag_eps => Ok(Self::DeserType::<'_>::#variants_names{ #variant_eps_des }),"}]},
    {"name": "b14_check_header_skip_align_hash", "kind": "breaking", "expect": ["C10"],
     "edits": [{"file": DES, "old": "    if ser_align_hash != self_align_hash {", "new": "    if ser_align_hash != self_align_hash && false {"}]},
    {"name": "b15_minor_gt_to_ne", "kind": "breaking", "expect": ["C10"],
     "edits": [{"file": DES, "old": "    if minor > VERSION.1 {", "new": "    if minor != VERSION.1 {"}]},
    {"name": "b15b_minor_gt_to_ge", "kind": "breaking", "expect": ["C10"],
     "edits": [{"file": DES, "old": "    if minor > VERSION.1 {", "new": "    if minor >= VERSION.1 {"}]},
    {"name": "b16_major_payload_expected_value", "kind": "breaking", "expect": ["C10"],
     "edits": [{"file": DES, "old": "        return Err(Error::MajorVersionMismatch(major));", "new": "        return Err(Error::MajorVersionMismatch(VERSION.0));"}]},
    {"name": "b17_swap_hash_writes_only", "kind": "breaking", "expect": ["C10"],
     "edits": [{"file": SER, "old": '    backend.write("TYPE_HASH", &type_hasher.finish())?;\n    backend.write("REPR_HASH", &align_hasher.finish())?;', "new": '    backend.write("REPR_HASH", &align_hasher.finish())?;\n    backend.write("TYPE_HASH", &type_hasher.finish())?;'}]},
    {"name": "b19_magic_rev_arm_removed", "kind": "breaking", "expect": ["C10"],
     "edits": [{"file": DES, "old": "        MAGIC_REV => Err(Error::EndiannessError),\n", "new": ""}]},
    {"name": "b20_full_vec_zero_without_align", "kind": "breaking", "expect": ["C01"],
     "edits": [{"file": DHELP, "old": "    let len = usize::_deserialize_full_inner(backend)?;\n    backend.align::<T>()?;\n    let mut res = Vec::with_capacity(len);", "new": "    let len = usize::_deserialize_full_inner(backend)?;\n    let mut res = Vec::with_capacity(len);"}]},
    {"name": "b21_eps_slice_zero_without_skip", "kind": "breaking", "expect": ["C02"],
     "edits": [{"file": DHELP, "old": "    debug_assert!(after.is_empty());\n    backend.skip(bytes);\n    Ok(data)", "new": "    debug_assert!(after.is_empty());\n    Ok(data)"}]},
    {"name": "b22_eps_slice_skip_len_not_bytes", "kind": "breaking", "expect": ["C02"],
     "edits": [{"file": DHELP, "old": "    debug_assert!(after.is_empty());\n    backend.skip(bytes);\n    Ok(data)", "new": "    debug_assert!(after.is_empty());\n    backend.skip(len);\n    Ok(data)"}]},
    {"name": "b23_eps_skip_align_when_empty", "kind": "breaking", "expect": ["C02"],
     "edits": [{"file": DHELP, "old": "    let bytes = len * core::mem::size_of::<T>();\n    backend.align::<T>()?;", "new": "    let bytes = len * core::mem::size_of::<T>();\n    if len != 0 {\n        backend.align::<T>()?;\n    }"}]},
    {"name": "b60_deserialize_eps_skips_check_header", "kind": "breaking", "expect": ["C10"],
     "edits": [{"file": DES, "old": "        let mut backend = SliceWithPos::new(backend);\n        check_header::<Self>(&mut backend)?;", "new": "        let mut backend = SliceWithPos::new(backend);\n        if false { check_header::<Self>(&mut backend)?; }"}]},
    {"name": "b03_bound_tags_swapped_all_sides", "kind": "breaking", "expect": ["C06"],
     "edits": [{"file": STD, "old": 'backend.write("Tag", &1_u8)?;\n                backend.write("Included", val)', "new": 'backend.write("Tag", &2_u8)?;\n                backend.write("Included", val)'},
               {"file": STD, "old": 'backend.write("Tag", &2_u8)?;\n                backend.write("Excluded", val)', "new": 'backend.write("Tag", &1_u8)?;\n                backend.write("Excluded", val)'},
               {"file": STD, "old": "            1 => Ok(core::ops::Bound::Included(T::_deserialize_full_inner(", "new": "            2 => Ok(core::ops::Bound::Included(T::_deserialize_full_inner("},
               {"file": STD, "old": "            2 => Ok(core::ops::Bound::Excluded(T::_deserialize_full_inner(", "new": "            1 => Ok(core::ops::Bound::Excluded(T::_deserialize_full_inner("},
               {"file": STD, "old": "            1 => Ok(core::ops::Bound::Included(T::_deserialize_eps_inner(", "new": "            2 => Ok(core::ops::Bound::Included(T::_deserialize_eps_inner("},
               {"file": STD, "old": "            2 => Ok(core::ops::Bound::Excluded(T::_deserialize_eps_inner(", "new": "            1 => Ok(core::ops::Bound::Excluded(T::_deserialize_eps_inner("}]},
    {"name": "b08_derive_drop_field_names_hash", "kind": "breaking", "expect": ["C04"],
     "edits": [{"file": DERIVE, "old": "                            #name_literal.hash(hasher);\n                            #(\n                                #fields_names.hash(hasher);\n                            )*\n                            // Recurse on all fields.\n                            #(\n                                <#fields_types as epserde::traits::TypeHash>::type_hash(hasher);\n                            )*\n                        }\n                    }\n                    #[automatically_derived]\n                    impl<#impl_generics> epserde::traits::AlignHash for #name<#concat_generics> #where_clause_align_hash {", "new": "                            #name_literal.hash(hasher);\n                            // Recurse on all fields.\n                            #(\n                                <#fields_types as epserde::traits::TypeHash>::type_hash(hasher);\n                            )*\n                        }\n                    }\n                    #[automatically_derived]\n                    impl<#impl_generics> epserde::traits::AlignHash for #name<#concat_generics> #where_clause_align_hash {"}]},
    {"name": "b09_derive_drop_const_values_hash_deep", "kind": "breaking", "expect": ["C04"],
     "edits": [{"file": DERIVE, "old": "                            \"DeepCopy\".hash(hasher);\n                            // Hash the values of generic constants\n                            #(\n                                #const_names.hash(hasher);\n                            )*", "new": "                            \"DeepCopy\".hash(hasher);"}]},
    {"name": "b11_derive_drop_repr_hash", "kind": "breaking", "expect": ["C04"],
     "edits": [{"file": DERIVE, "old": "                            // Hash in representation data.\n                            #(\n                                #repr.hash(hasher);\n                            )*\n                            // Recurse on all fields.\n                            #(\n                                <#fields_types as epserde::traits::AlignHash>::align_hash(", "new": "                            // Recurse on all fields.\n                            #(\n                                <#fields_types as epserde::traits::AlignHash>::align_hash("}]},
    {"name": "b12_derive_drop_size_from_alignhash_enum", "kind": "breaking", "expect": ["C04"],
     "edits": [{"file": DERIVE, "old": "                            core::mem::size_of::<Self>().hash(hasher);\n                            // Hash in representation data.\n                            #(\n                                #repr.hash(hasher);\n                            )*\n                            // Recurse on all fields.\n                            let old_offset_of", "new": "                            // Hash in representation data.\n                            #(\n                                #repr.hash(hasher);\n                            )*\n                            // Recurse on all fields.\n                            let old_offset_of"}]},
    {"name": "b13_slice_hashes_own_name", "kind": "breaking", "expect": ["C04"],
     "edits": [{"file": "epserde/src/impls/slice.rs", "old": "impl<T: TypeHash> TypeHash for &[T] {\n    fn type_hash(hasher: &mut impl core::hash::Hasher) {\n        Vec::<T>::type_hash(hasher);", "new": "impl<T: TypeHash> TypeHash for &[T] {\n    fn type_hash(hasher: &mut impl core::hash::Hasher) {\n        use core::hash::Hash;\n        \"&[]\".hash(hasher);\n        T::type_hash(hasher);"}]},
    {"name": "b18_swap_hashes_both_sides", "kind": "breaking", "expect": ["C06"],
     "edits": [{"file": SER, "old": '    backend.write("TYPE_HASH", &type_hasher.finish())?;\n    backend.write("REPR_HASH", &align_hasher.finish())?;', "new": '    backend.write("REPR_HASH", &align_hasher.finish())?;\n    backend.write("TYPE_HASH", &type_hasher.finish())?;'},
               {"file": DES, "old": "    let ser_type_hash = u64::_deserialize_full_inner(backend)?;\n    let ser_align_hash = u64::_deserialize_full_inner(backend)?;", "new": "    let ser_align_hash = u64::_deserialize_full_inner(backend)?;\n    let ser_type_hash = u64::_deserialize_full_inner(backend)?;"}]},
    {"name": "b24_vec_typehash_drops_T_for_arrays", "kind": "breaking", "expect": ["C04"],
     "edits": [{"file": "epserde/src/impls/array.rs", "old": '        "[]".hash(hasher);\n        hasher.write_usize(N);', "new": '        "[]".hash(hasher);'}]},
    {"name": "b35_padding_byte_one", "kind": "breaking", "expect": ["C07"],
     "edits": [{"file": "epserde/src/ser/write_with_names.rs", "old": "        for _ in 0..padding {\n            self.write_all(&[0])?;\n        }\n        Ok(())\n    }\n\n    /// Write a value with an associated name.", "new": "        for _ in 0..padding {\n            self.write_all(&[1])?;\n        }\n        Ok(())\n    }\n\n    /// Write a value with an associated name."}]},
    # ---------------------------------------------------------------- preserving
    {"name": "p02_question_mark_to_match", "kind": "preserving",
     "edits": [{"file": PRIM, "old": "        let tag = u8::_deserialize_full_inner(backend)?;\n        match tag {\n            0 => Ok(None),\n            1 => Ok(Some(T::_deserialize_full_inner(backend)?)),", "new": "        let tag = match u8::_deserialize_full_inner(backend) { Ok(t) => t, Err(e) => return Err(e) };\n        match tag {\n            0 => Ok(None),\n            1 => Ok(Some(T::_deserialize_full_inner(backend)?)),"}]},
    {"name": "p03_tag_match_to_if_chain", "kind": "preserving",
     "edits": [{"file": PRIM, "old": "        let tag = u8::_deserialize_full_inner(backend)?;\n        match tag {\n            0 => Ok(None),\n            1 => Ok(Some(T::_deserialize_full_inner(backend)?)),\n            _ => Err(deser::Error::InvalidTag(tag as usize)),\n        }", "new": "        let tag = u8::_deserialize_full_inner(backend)?;\n        if tag == 0 {\n            Ok(None)\n        } else if tag == 1 {\n            Ok(Some(T::_deserialize_full_inner(backend)?))\n        } else {\n            Err(deser::Error::InvalidTag(tag as usize))\n        }"}]},
    {"name": "p08_header_negated_comparisons", "kind": "preserving",
     "edits": [{"file": DES, "old": "    if major != VERSION.0 {", "new": "    if !(VERSION.0 == major) {"},
               {"file": DES, "old": "    if minor > VERSION.1 {", "new": "    if VERSION.1 < minor {"}]},
    {"name": "p13_check_header_reordered_hash_checks", "kind": "preserving",
     "edits": [{"file": DES, "old": "    let usize_size = u8::_deserialize_full_inner(backend)?;\n    let usize_size = usize_size as usize;", "new": "    let usize_byte = u8::_deserialize_full_inner(backend)?;\n    let usize_size = usize::from(usize_byte);"}], "note": "usize::from instead of as"},
]
for m in MUTANTS:
    if m.get("kind_override"):
        m["kind"] = m["kind_override"]
