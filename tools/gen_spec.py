#!/usr/bin/env python3
"""Regenerates spec/format_v1_1.json from the *current* tree. Run by hand only, after the
extracted terms have been read against the README's format description; never by a check."""
import json, os, sys
sys.path.insert(0, os.path.dirname(os.path.dirname(os.path.abspath(__file__))))
from epsrules import common, facts, golden
f = common.Facts()
u = facts.load_universe([f.epserde()])
cur = golden.current(u)
from epsrules import gen_units
pw = f.witness("wunits", gen=lambda d: gen_units.generate(d, "quick"))
uu = facts.load_universe([f.epserde(), pw])
cur["units_closed"] = golden.closed_units(uu, "wunits")
cur["_comment"] = "Format v1.1 as wire terms / hash recipes of the built-in impls, extracted from the pinned tree (with the fix: commits) and read by hand against README.md and the statements of C04/C06. A tree whose extracted terms differ has changed the format."
json.dump(cur, open(golden.SPEC, "w"), indent=1, sort_keys=True, default=list)
print("written", golden.SPEC)
