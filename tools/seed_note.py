#!/usr/bin/env python3
"""usage: seed_note.py <name> <text>  -- append a line to the "history" of seeded/<name>/meta.json"""
import json, sys
p = "/verif/seeded/%s/meta.json" % sys.argv[1]
m = json.load(open(p))
m.setdefault("history", []).append(sys.argv[2])
json.dump(m, open(p, "w"), indent=1)
