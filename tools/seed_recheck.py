#!/usr/bin/env python3
"""Re-run every registered check against each stored seeded change (seeded/<name>/patch.diff applied to a scratch
worktree of /repo's HEAD) and refresh "checks_fired" in its meta.json. Not a registered check.
  tools/seed_recheck.py [name ...]
A seed whose patch no longer applies to HEAD is reported and left untouched."""
import json, os, shutil, subprocess, sys

VERIF = os.path.dirname(os.path.dirname(os.path.abspath(__file__)))
BASE = "/tmp/seed_recheck"


def sh(*a, **kw):
    return subprocess.run(a, stdout=subprocess.PIPE, stderr=subprocess.STDOUT, text=True, **kw)


def main():
    names = sys.argv[1:] or sorted(os.listdir(os.path.join(VERIF, "seeded")))
    regs = [c["property_id"] for c in json.load(open(os.path.join(VERIF, "MANIFEST.json")))["checks"]]
    head = sh("git", "-C", "/repo", "rev-parse", "--short", "HEAD").stdout.strip()
    os.makedirs(BASE, exist_ok=True)
    bad = 0
    for nm in names:
        d = os.path.join(VERIF, "seeded", nm)
        if not os.path.exists(os.path.join(d, "patch.diff")):
            continue
        w = os.path.join(BASE, nm)
        sh("git", "-C", "/repo", "worktree", "remove", "--force", w)
        r = sh("git", "-C", "/repo", "worktree", "add", "--detach", w, "HEAD")
        shutil.copy("/repo/Cargo.lock", w)
        r = sh("git", "-C", w, "apply", os.path.join(d, "patch.diff"))
        if r.returncode != 0:
            print("%-6s patch does not apply to %s: %s" % (nm, head, r.stdout.strip()[:200]))
            sh("git", "-C", "/repo", "worktree", "remove", "--force", w)
            bad += 1
            continue
        fired, rules, broken = [], {}, []
        for c in regs:
            p = sh(os.path.join(VERIF, "check"), c, cwd=VERIF, env=dict(os.environ, REPO=w))
            if p.returncode == 1 and "VIOLATION" in p.stdout:
                fired.append(c)
                try:
                    for v in json.load(open(os.path.join(VERIF, "evidence", "violations", c + ".json"))):
                        rules.setdefault(c, set()).add(v["rule"])
                except Exception:
                    pass
            elif p.returncode != 0:
                broken.append(c)
        sh("git", "-C", "/repo", "worktree", "remove", "--force", w)
        m = json.load(open(os.path.join(d, "meta.json")))
        prop = m.get("property", nm[:3])
        m["checks_fired"] = fired
        m["rules_fired"] = {k: sorted(v) for k, v in rules.items()}
        m["rechecked_at_repo_commit"] = head
        json.dump(m, open(os.path.join(d, "meta.json"), "w"), indent=1)
        status = "caught" if prop in fired else ("caught-by-other" if fired else "MISSED")
        if status == "MISSED" or broken:
            bad += 1
        print("%-6s %-16s fired=%s %s" % (nm, status, ",".join("%s[%s]" % (c, "/".join(sorted(rules.get(c, [])))) for c in fired), ("BROKEN " + ",".join(broken)) if broken else ""), flush=True)
    subprocess.call([os.path.join(VERIF, "tools", "prune_work.sh")])
    return 1 if bad else 0


if __name__ == "__main__":
    sys.exit(main())
