//! epsfacts: a rule-free exporter of compiler facts (THIR trees with resolved
//! callees and types, MIR control-flow graphs, ADTs, impls, layouts) as JSON.
//!
//! Used as RUSTC_WORKSPACE_WRAPPER under `cargo +nightly check`. For crates
//! whose name is listed in $EPSFACTS_CRATES it writes
//! $EPSFACTS_OUT/<crate>.json; every crate is compiled normally.
#![feature(rustc_private)]
#![allow(clippy::all)]

extern crate rustc_abi;
extern crate rustc_ast;
extern crate rustc_data_structures;
extern crate rustc_driver;
extern crate rustc_hir;
extern crate rustc_index;
extern crate rustc_interface;
extern crate rustc_middle;
extern crate rustc_session;
extern crate rustc_span;

mod json;
use json::J;

use rustc_data_structures::fx::FxHashMap;
use rustc_driver::{Callbacks, Compilation};
use rustc_hir::def::DefKind;
use rustc_hir::def_id::{DefId, LocalDefId};
use rustc_interface::interface::Compiler;
use rustc_middle::mir;
use rustc_middle::thir::{self, ExprId, ExprKind, PatKind, StmtKind, Thir};
use rustc_middle::ty::print::with_no_trimmed_paths;
use rustc_middle::ty::{self, GenericArgKind, Instance, Ty, TyCtxt, TypeVisitableExt, TypingEnv};
use rustc_span::Span;

struct Cb {
    crates: Vec<String>,
    out: String,
}

impl Callbacks for Cb {
    fn after_expansion<'tcx>(&mut self, _c: &Compiler, tcx: TyCtxt<'tcx>) -> Compilation {
        let name = tcx.crate_name(rustc_hir::def_id::LOCAL_CRATE).to_string();
        if !self.crates.iter().any(|c| *c == name) {
            return Compilation::Continue;
        }
        // test harness / build-script / proc-macro compilations of the same name are skipped
        if tcx.sess.opts.test {
            return Compilation::Continue;
        }
        let mut cx = Ctx::new(tcx);
        let doc = cx.run(&name);
        let mut s = String::with_capacity(1 << 24);
        doc.write(&mut s);
        let path = format!("{}/{}.json", self.out, name);
        std::fs::create_dir_all(&self.out).expect("mkdir out");
        let tmp = format!("{}.tmp{}", path, std::process::id());
        std::fs::write(&tmp, s).expect("write facts");
        std::fs::rename(&tmp, &path).expect("rename facts");
        Compilation::Continue
    }
}

fn main() {
    let mut args: Vec<String> = std::env::args().collect();
    // RUSTC_WORKSPACE_WRAPPER passes the real rustc path as argv[1]
    if args.len() > 1 && (args[1].ends_with("rustc") || args[1].contains("/rustc")) {
        args.remove(1);
    }
    let crates: Vec<String> = std::env::var("EPSFACTS_CRATES")
        .unwrap_or_default()
        .split(',')
        .filter(|s| !s.is_empty())
        .map(|s| s.replace('-', "_"))
        .collect();
    let out = std::env::var("EPSFACTS_OUT").unwrap_or_else(|_| ".".into());
    let mut cb = Cb { crates, out };
    rustc_driver::run_compiler(&args, &mut cb);
}

struct Ctx<'tcx> {
    tcx: TyCtxt<'tcx>,
    tys: Vec<J>,
    ty_list: Vec<Ty<'tcx>>,
    ty_map: FxHashMap<Ty<'tcx>, usize>,
    defs: Vec<J>,
    def_map: FxHashMap<DefId, usize>,
    files: Vec<String>,
    file_map: FxHashMap<String, usize>,
    /// current body owner, for Instance resolution
    owner: Option<LocalDefId>,
}

fn jb(b: bool) -> J {
    J::Bool(b)
}

impl<'tcx> Ctx<'tcx> {
    fn new(tcx: TyCtxt<'tcx>) -> Self {
        Ctx {
            tcx,
            tys: vec![],
            ty_list: vec![],
            ty_map: FxHashMap::default(),
            defs: vec![],
            def_map: FxHashMap::default(),
            files: vec![],
            file_map: FxHashMap::default(),
            owner: None,
        }
    }

    // ------------------------------------------------------------------ spans
    fn span(&mut self, sp: Span) -> J {
        let sm = self.tcx.sess.source_map();
        let exp = sp.from_expansion();
        // location of the outermost call site (what a human would look at)
        let site = if exp { sp.source_callsite() } else { sp };
        let lo = sm.lookup_char_pos(site.lo());
        let fname = format!("{}", lo.file.name.prefer_local_unconditionally());
        let fi = match self.file_map.get(&fname) {
            Some(i) => *i,
            None => {
                let i = self.files.len();
                self.files.push(fname.clone());
                self.file_map.insert(fname, i);
                i
            }
        };
        J::Arr(vec![J::n(fi), J::n(lo.line), J::n(lo.col.0 + 1), J::n(exp as u8)])
    }

    // ------------------------------------------------------------------ defs
    fn def_id_string(&self, d: DefId) -> String {
        format!(
            "{}{}",
            self.tcx.crate_name(d.krate),
            self.tcx.def_path(d).to_string_no_crate_verbose()
        )
    }

    fn def(&mut self, d: DefId) -> usize {
        if let Some(i) = self.def_map.get(&d) {
            return *i;
        }
        let i = self.defs.len();
        self.def_map.insert(d, i);
        self.defs.push(J::Null);
        let tcx = self.tcx;
        let kind = tcx.def_kind(d);
        let mut o = J::obj(vec![
            ("id", J::s(self.def_id_string(d))),
            ("n", J::s(with_no_trimmed_paths!(tcx.def_path_str(d)))),
            ("krate", J::s(tcx.crate_name(d.krate).to_string())),
            ("kind", J::s(format!("{:?}", kind))),
            ("local", jb(d.is_local())),
        ]);
        if let Some(name) = tcx.opt_item_name(d) {
            o.push("name", J::s(name.to_string()));
        }
        match kind {
            DefKind::AssocFn | DefKind::AssocConst { .. } | DefKind::AssocTy => {
                let parent = tcx.parent(d);
                let pi = self.def(parent);
                o.push("parent", J::n(pi));
                o.push("parent_kind", J::s(format!("{:?}", tcx.def_kind(parent))));
                if let Some(ai) = tcx.opt_associated_item(d) {
                    if let Some(ti) = ai.trait_item_def_id() {
                        let t = self.def(ti);
                        o.push("trait_item", J::n(t));
                    }
                }
                if let DefKind::Impl { of_trait: true } = tcx.def_kind(parent) {
                    let tr = tcx.impl_trait_ref(parent).skip_binder();
                    let t = self.def(tr.def_id);
                    o.push("of_trait", J::n(t));
                } else if let DefKind::Trait = tcx.def_kind(parent) {
                    o.push("of_trait", J::n(pi));
                }
            }
            DefKind::Variant | DefKind::Ctor(..) | DefKind::Field => {
                let parent = tcx.parent(d);
                let pi = self.def(parent);
                o.push("parent", J::n(pi));
            }
            DefKind::Closure => {
                let parent = tcx.parent(d);
                let pi = self.def(parent);
                o.push("parent", J::n(pi));
            }
            _ => {}
        }
        self.defs[i] = o;
        i
    }

    // ------------------------------------------------------------------ types
    fn konst(&mut self, c: ty::Const<'tcx>) -> J {
        let tcx = self.tcx;
        match c.kind() {
            ty::ConstKind::Param(p) => J::obj(vec![("p", J::s(p.name.to_string()))]),
            ty::ConstKind::Value(v) => {
                let mut o = J::obj(vec![("s", J::s(with_no_trimmed_paths!(format!("{}", c))))]);
                if let Some(leaf) = v.valtree.try_to_leaf() {
                    o.push("v", J::n(leaf.to_uint(leaf.size())));
                    o.push("bytes", J::n(leaf.size().bytes()));
                }
                let t = self.ty(v.ty);
                o.push("ty", J::n(t));
                o
            }
            ty::ConstKind::Unevaluated(uv) => {
                let d = self.def(uv.def);
                let a = self.gargs(uv.args);
                let _ = tcx;
                J::obj(vec![
                    ("s", J::s(with_no_trimmed_paths!(format!("{}", c)))),
                    ("uneval", J::n(d)),
                    ("a", a),
                ])
            }
            _ => J::obj(vec![("s", J::s(with_no_trimmed_paths!(format!("{:?}", c))))]),
        }
    }

    fn garg(&mut self, a: ty::GenericArg<'tcx>) -> J {
        match a.kind() {
            GenericArgKind::Type(t) => J::obj(vec![("t", J::n(self.ty(t)))]),
            GenericArgKind::Const(c) => J::obj(vec![("c", self.konst(c))]),
            GenericArgKind::Lifetime(r) => J::obj(vec![("l", J::s(format!("{:?}", r)))]),
        }
    }

    fn gargs(&mut self, args: ty::GenericArgsRef<'tcx>) -> J {
        J::Arr(args.iter().map(|a| self.garg(a)).collect())
    }

    fn ty(&mut self, t: Ty<'tcx>) -> usize {
        if let Some(i) = self.ty_map.get(&t) {
            return *i;
        }
        let i = self.tys.len();
        self.ty_map.insert(t, i);
        self.tys.push(J::Null);
        self.ty_list.push(t);
        let s = with_no_trimmed_paths!(format!("{}", t));
        let mut o = J::obj(vec![("s", J::s(s))]);
        match *t.kind() {
            ty::Bool | ty::Char | ty::Int(_) | ty::Uint(_) | ty::Float(_) | ty::Str | ty::Never => {
                o.push("k", J::s("prim"));
            }
            ty::Adt(adt, args) => {
                o.push("k", J::s("adt"));
                let d = self.def(adt.did());
                o.push("d", J::n(d));
                o.push("n", J::s(with_no_trimmed_paths!(self.tcx.def_path_str(adt.did()))));
                let a = self.gargs(args);
                o.push("a", a);
            }
            ty::Array(e, n) => {
                o.push("k", J::s("array"));
                o.push("t", J::n(self.ty(e)));
                let c = self.konst(n);
                o.push("len", c);
            }
            ty::Slice(e) => {
                o.push("k", J::s("slice"));
                o.push("t", J::n(self.ty(e)));
            }
            ty::RawPtr(e, m) => {
                o.push("k", J::s("ptr"));
                o.push("m", jb(m.is_mut()));
                o.push("t", J::n(self.ty(e)));
            }
            ty::Ref(r, e, m) => {
                o.push("k", J::s("ref"));
                o.push("m", jb(m.is_mut()));
                o.push("l", J::s(format!("{:?}", r)));
                o.push("t", J::n(self.ty(e)));
            }
            ty::Tuple(ts) => {
                o.push("k", J::s("tuple"));
                let v: Vec<J> = ts.iter().map(|x| J::n(self.ty(x))).collect();
                o.push("ts", J::Arr(v));
            }
            ty::Param(p) => {
                o.push("k", J::s("param"));
                o.push("n", J::s(p.name.to_string()));
                o.push("i", J::n(p.index));
            }
            ty::Alias(al) => {
                o.push("k", J::s("alias"));
                let (kind, did) = match al.kind {
                    ty::AliasTyKind::Projection { def_id } => ("projection", def_id),
                    ty::AliasTyKind::Inherent { def_id } => ("inherent", def_id),
                    ty::AliasTyKind::Opaque { def_id } => ("opaque", def_id),
                    ty::AliasTyKind::Free { def_id } => ("free", def_id),
                };
                o.push("ak", J::s(kind));
                let d = self.def(did);
                o.push("d", J::n(d));
                let a = self.gargs(al.args);
                o.push("a", a);
            }
            ty::FnDef(d, args) => {
                o.push("k", J::s("fndef"));
                let di = self.def(d);
                o.push("d", J::n(di));
                let a = self.gargs(args);
                o.push("a", a);
            }
            ty::Closure(d, _args) => {
                o.push("k", J::s("closure"));
                let di = self.def(d);
                o.push("d", J::n(di));
            }
            ty::FnPtr(..) => o.push("k", J::s("fnptr")),
            ty::Dynamic(..) => o.push("k", J::s("dyn")),
            ty::Foreign(_) => o.push("k", J::s("foreign")),
            _ => o.push("k", J::s("other")),
        }
        self.tys[i] = o;
        i
    }

    // ------------------------------------------------------------------ callee resolution
    fn resolve(&mut self, d: DefId, args: ty::GenericArgsRef<'tcx>) -> J {
        let tcx = self.tcx;
        let Some(owner) = self.owner else { return J::Null };
        if !matches!(tcx.def_kind(d), DefKind::AssocFn | DefKind::Fn) {
            return J::Null;
        }
        // only trait items need resolving
        let is_trait_item = tcx.trait_of_assoc(d).is_some();
        if !is_trait_item {
            return J::Null;
        }
        if args.has_infer() || args.has_escaping_bound_vars() {
            return J::Null;
        }
        let env = TypingEnv::post_analysis(tcx, owner.to_def_id());
        let args = tcx.erase_and_anonymize_regions(args);
        match Instance::try_resolve(tcx, env, d, args) {
            Ok(Some(inst)) => {
                let rd = inst.def_id();
                if rd == d {
                    // unresolved (still the trait item: default method or not selectable)
                    let mut o = J::obj(vec![("d", J::n(self.def(rd)))]);
                    o.push("same", jb(true));
                    o
                } else {
                    let di = self.def(rd);
                    let a = self.gargs(inst.args);
                    J::obj(vec![("d", J::n(di)), ("a", a)])
                }
            }
            _ => J::Null,
        }
    }

    fn fn_ref(&mut self, t: Ty<'tcx>) -> J {
        match *t.kind() {
            ty::FnDef(d, args) => {
                let di = self.def(d);
                let a = self.gargs(args);
                let r = self.resolve(d, args);
                J::obj(vec![("d", J::n(di)), ("a", a), ("res", r)])
            }
            ty::Closure(d, _) => J::obj(vec![("closure", J::n(self.def(d)))]),
            _ => J::obj(vec![("dyn", J::n(self.ty(t)))]),
        }
    }

    // ------------------------------------------------------------------ THIR
    fn pat(&mut self, th: &Thir<'tcx>, p: &thir::Pat<'tcx>) -> J {
        let t = self.ty(p.ty);
        let mut o = J::obj(vec![("ty", J::n(t))]);
        match &p.kind {
            PatKind::Wild => o.push("k", J::s("Wild")),
            PatKind::Missing => o.push("k", J::s("Missing")),
            PatKind::Binding { name, mode, var, ty: _, subpattern, .. } => {
                o.push("k", J::s("Binding"));
                o.push("name", J::s(name.to_string()));
                o.push("var", J::s(format!("{:?}", var.0.local_id)));
                o.push("byref", jb(!matches!(mode.0, rustc_hir::ByRef::No)));
                o.push("mut", jb(mode.1.is_mut()));
                if let Some(sp) = subpattern {
                    let s = self.pat(th, sp);
                    o.push("sub", s);
                }
            }
            PatKind::Variant { adt_def, args: _, variant_index, subpatterns } => {
                o.push("k", J::s("Variant"));
                let d = self.def(adt_def.did());
                o.push("adt", J::n(d));
                o.push("variant", J::n(variant_index.as_u32()));
                o.push(
                    "vname",
                    J::s(adt_def.variant(*variant_index).name.to_string()),
                );
                let subs: Vec<J> = subpatterns
                    .iter()
                    .map(|fp| {
                        let s = self.pat(th, &fp.pattern);
                        J::obj(vec![("f", J::n(fp.field.as_u32())), ("p", s)])
                    })
                    .collect();
                o.push("subs", J::Arr(subs));
            }
            PatKind::Leaf { subpatterns } => {
                o.push("k", J::s("Leaf"));
                let subs: Vec<J> = subpatterns
                    .iter()
                    .map(|fp| {
                        let s = self.pat(th, &fp.pattern);
                        J::obj(vec![("f", J::n(fp.field.as_u32())), ("p", s)])
                    })
                    .collect();
                o.push("subs", J::Arr(subs));
            }
            PatKind::Deref { subpattern, .. } => {
                o.push("k", J::s("Deref"));
                let s = self.pat(th, subpattern);
                o.push("sub", s);
            }
            PatKind::DerefPattern { subpattern, .. } => {
                o.push("k", J::s("DerefPattern"));
                let s = self.pat(th, subpattern);
                o.push("sub", s);
            }
            PatKind::Constant { value } => {
                o.push("k", J::s("Constant"));
                o.push("s", J::s(with_no_trimmed_paths!(format!("{}", value))));
                if let Some(leaf) = value.valtree.try_to_leaf() {
                    o.push("v", J::n(leaf.to_uint(leaf.size())));
                    o.push("bytes", J::n(leaf.size().bytes()));
                }
                if let Some(extra) = &p.extra {
                    if let Some(d) = extra.expanded_const {
                        let di = self.def(d);
                        o.push("from_const", J::n(di));
                    }
                }
            }
            PatKind::Range(r) => {
                o.push("k", J::s("Range"));
                o.push("s", J::s(format!("{:?}", r)));
            }
            PatKind::Or { pats } => {
                o.push("k", J::s("Or"));
                let v: Vec<J> = pats.iter().map(|x| self.pat(th, x)).collect();
                o.push("pats", J::Arr(v));
            }
            PatKind::Slice { prefix, slice, suffix } | PatKind::Array { prefix, slice, suffix } => {
                o.push("k", J::s("Slice"));
                let a: Vec<J> = prefix.iter().map(|x| self.pat(th, x)).collect();
                o.push("prefix", J::Arr(a));
                if let Some(s) = slice {
                    let s = self.pat(th, s);
                    o.push("slice", s);
                }
                let b: Vec<J> = suffix.iter().map(|x| self.pat(th, x)).collect();
                o.push("suffix", J::Arr(b));
            }
            PatKind::Guard { subpattern, condition } => {
                o.push("k", J::s("Guard"));
                let s = self.pat(th, subpattern);
                o.push("sub", s);
                let c = self.expr(th, *condition);
                o.push("cond", c);
            }
            PatKind::Never => o.push("k", J::s("Never")),
            PatKind::Error(_) => o.push("k", J::s("Error")),
        }
        o
    }

    fn block(&mut self, th: &Thir<'tcx>, b: thir::BlockId) -> J {
        let blk = &th[b];
        let mut stmts = vec![];
        for s in blk.stmts.iter() {
            let st = &th[*s];
            match &st.kind {
                StmtKind::Expr { expr, .. } => {
                    let e = self.expr(th, *expr);
                    stmts.push(J::obj(vec![("k", J::s("Expr")), ("e", e)]));
                }
                StmtKind::Let { pattern, initializer, else_block, span, .. } => {
                    let p = self.pat(th, pattern);
                    let mut o = J::obj(vec![("k", J::s("Let")), ("pat", p)]);
                    if let Some(i) = initializer {
                        let e = self.expr(th, *i);
                        o.push("init", e);
                    }
                    if let Some(eb) = else_block {
                        let e = self.block(th, *eb);
                        o.push("else", e);
                    }
                    let sp = self.span(*span);
                    o.push("sp", sp);
                    stmts.push(o);
                }
            }
        }
        let mut o = J::obj(vec![("stmts", J::Arr(stmts))]);
        if let Some(e) = blk.expr {
            let e = self.expr(th, e);
            o.push("expr", e);
        }
        o.push(
            "unsafe",
            jb(!matches!(blk.safety_mode, thir::BlockSafety::Safe)),
        );
        o.push("brk", jb(blk.targeted_by_break));
        o
    }

    fn expr(&mut self, th: &Thir<'tcx>, id: ExprId) -> J {
        let e = &th[id];
        // transparent wrappers
        match &e.kind {
            ExprKind::Scope { value, .. } => return self.expr(th, *value),
            _ => {}
        }
        let t = self.ty(e.ty);
        let sp = self.span(e.span);
        let mut o = J::obj(vec![("ty", J::n(t)), ("sp", sp)]);
        macro_rules! kind {
            ($k:expr) => {
                o.push("k", J::s($k))
            };
        }
        macro_rules! sub {
            ($name:expr, $id:expr) => {{
                let x = self.expr(th, $id);
                o.push($name, x);
            }};
        }
        match &e.kind {
            ExprKind::Scope { .. } => unreachable!(),
            ExprKind::If { cond, then, else_opt, .. } => {
                kind!("If");
                sub!("cond", *cond);
                sub!("then", *then);
                if let Some(x) = else_opt {
                    sub!("else", *x);
                }
            }
            ExprKind::Call { ty: fty, fun, args, from_hir_call, .. } => {
                kind!("Call");
                let f = self.fn_ref(*fty);
                o.push("f", f);
                // the callee expression matters only when it is not a plain fn item
                if !matches!(fty.kind(), ty::FnDef(..)) {
                    sub!("fun", *fun);
                }
                let a: Vec<J> = args.iter().map(|x| self.expr(th, *x)).collect();
                o.push("args", J::Arr(a));
                o.push("hir_call", jb(*from_hir_call));
            }
            ExprKind::ByUse { expr, .. } => {
                kind!("Use");
                sub!("e", *expr);
            }
            ExprKind::Deref { arg } => {
                kind!("Deref");
                sub!("e", *arg);
            }
            ExprKind::Binary { op, lhs, rhs } => {
                kind!("Binary");
                o.push("op", J::s(format!("{:?}", op)));
                sub!("l", *lhs);
                sub!("r", *rhs);
            }
            ExprKind::LogicalOp { op, lhs, rhs } => {
                kind!("Logical");
                o.push("op", J::s(format!("{:?}", op)));
                sub!("l", *lhs);
                sub!("r", *rhs);
            }
            ExprKind::Unary { op, arg } => {
                kind!("Unary");
                o.push("op", J::s(format!("{:?}", op)));
                sub!("e", *arg);
            }
            ExprKind::Cast { source } => {
                kind!("Cast");
                sub!("e", *source);
            }
            ExprKind::Use { source } => {
                kind!("Use");
                sub!("e", *source);
            }
            ExprKind::NeverToAny { source } => {
                kind!("NeverToAny");
                sub!("e", *source);
            }
            ExprKind::PointerCoercion { cast, source, .. } => {
                kind!("Coerce");
                o.push("cast", J::s(format!("{:?}", cast)));
                sub!("e", *source);
            }
            ExprKind::Loop { body } => {
                kind!("Loop");
                sub!("body", *body);
            }
            ExprKind::Let { expr, pat } => {
                kind!("LetExpr");
                sub!("e", *expr);
                let p = self.pat(th, pat);
                o.push("pat", p);
            }
            ExprKind::Match { scrutinee, arms, match_source } => {
                kind!("Match");
                o.push("src", J::s(format!("{:?}", match_source)));
                sub!("scrut", *scrutinee);
                let mut v = vec![];
                for a in arms.iter() {
                    let arm = &th[*a];
                    let p = self.pat(th, &arm.pattern);
                    let b = self.expr(th, arm.body);
                    let mut ao = J::obj(vec![("pat", p), ("body", b)]);
                    if let Some(g) = arm.guard {
                        let g = self.expr(th, g);
                        ao.push("guard", g);
                    }
                    let s = self.span(arm.span);
                    ao.push("sp", s);
                    v.push(ao);
                }
                o.push("arms", J::Arr(v));
            }
            ExprKind::Block { block } => {
                kind!("Block");
                let b = self.block(th, *block);
                o.push("b", b);
            }
            ExprKind::Assign { lhs, rhs } => {
                kind!("Assign");
                sub!("l", *lhs);
                sub!("r", *rhs);
            }
            ExprKind::AssignOp { op, lhs, rhs } => {
                kind!("AssignOp");
                o.push("op", J::s(format!("{:?}", op)));
                sub!("l", *lhs);
                sub!("r", *rhs);
            }
            ExprKind::Field { lhs, variant_index, name } => {
                kind!("Field");
                o.push("variant", J::n(variant_index.as_u32()));
                o.push("f", J::n(name.as_u32()));
                // field name for ADTs
                let lty = th[*lhs].ty;
                if let ty::Adt(adt, _) = lty.kind() {
                    let fd = &adt.variant(*variant_index).fields[*name];
                    o.push("fname", J::s(fd.name.to_string()));
                }
                sub!("e", *lhs);
            }
            ExprKind::Index { lhs, index } => {
                kind!("Index");
                sub!("e", *lhs);
                sub!("i", *index);
            }
            ExprKind::VarRef { id } => {
                kind!("Var");
                o.push("var", J::s(format!("{:?}", id.0.local_id)));
                let name = self.tcx.hir_name(id.0);
                o.push("name", J::s(name.to_string()));
            }
            ExprKind::UpvarRef { var_hir_id, .. } => {
                kind!("Upvar");
                o.push("var", J::s(format!("{:?}", var_hir_id.0.local_id)));
                let name = self.tcx.hir_name(var_hir_id.0);
                o.push("name", J::s(name.to_string()));
            }
            ExprKind::Borrow { borrow_kind, arg } => {
                kind!("Borrow");
                o.push("m", jb(matches!(borrow_kind, mir::BorrowKind::Mut { .. })));
                sub!("e", *arg);
            }
            ExprKind::RawBorrow { mutability, arg } => {
                kind!("RawBorrow");
                o.push("m", jb(mutability.is_mut()));
                sub!("e", *arg);
            }
            ExprKind::Break { value, label } => {
                kind!("Break");
                o.push("label", J::s(format!("{:?}", label.local_id)));
                if let Some(v) = value {
                    sub!("e", *v);
                }
            }
            ExprKind::Continue { label } => {
                kind!("Continue");
                o.push("label", J::s(format!("{:?}", label.local_id)));
            }
            ExprKind::Return { value } => {
                kind!("Return");
                if let Some(v) = value {
                    sub!("e", *v);
                }
            }
            ExprKind::Repeat { value, count } => {
                kind!("Repeat");
                sub!("e", *value);
                let c = self.konst(*count);
                o.push("count", c);
            }
            ExprKind::Array { fields } => {
                kind!("Array");
                let a: Vec<J> = fields.iter().map(|x| self.expr(th, *x)).collect();
                o.push("es", J::Arr(a));
            }
            ExprKind::Tuple { fields } => {
                kind!("Tuple");
                let a: Vec<J> = fields.iter().map(|x| self.expr(th, *x)).collect();
                o.push("es", J::Arr(a));
            }
            ExprKind::Adt(adt) => {
                kind!("Adt");
                let d = self.def(adt.adt_def.did());
                o.push("adt", J::n(d));
                o.push("variant", J::n(adt.variant_index.as_u32()));
                let vdef = adt.adt_def.variant(adt.variant_index);
                o.push("vname", J::s(vdef.name.to_string()));
                let mut fs = vec![];
                for f in adt.fields.iter() {
                    let x = self.expr(th, f.expr);
                    fs.push(J::obj(vec![
                        ("f", J::n(f.name.as_u32())),
                        ("fname", J::s(vdef.fields[f.name].name.to_string())),
                        ("e", x),
                    ]));
                }
                o.push("fields", J::Arr(fs));
                match &adt.base {
                    thir::AdtExprBase::Base(fru) => {
                        sub!("base", fru.base);
                    }
                    _ => {}
                }
            }
            ExprKind::PlaceTypeAscription { source, .. }
            | ExprKind::ValueTypeAscription { source, .. } => {
                kind!("Use");
                sub!("e", *source);
            }
            ExprKind::Closure(c) => {
                kind!("Closure");
                let d = self.def(c.closure_id.to_def_id());
                o.push("d", J::n(d));
                let ups: Vec<J> = c.upvars.iter().map(|x| self.expr(th, *x)).collect();
                o.push("upvars", J::Arr(ups));
            }
            ExprKind::Literal { lit, neg } => {
                kind!("Lit");
                o.push("neg", jb(*neg));
                match &lit.node {
                    rustc_ast::LitKind::Int(v, _) => o.push("v", J::n(v.get())),
                    rustc_ast::LitKind::Bool(b) => o.push("v", J::n(*b as u8)),
                    rustc_ast::LitKind::Str(s, _) => o.push("str", J::s(s.to_string())),
                    rustc_ast::LitKind::Char(c) => o.push("v", J::n(*c as u32)),
                    rustc_ast::LitKind::Byte(b) => o.push("v", J::n(*b)),
                    rustc_ast::LitKind::ByteStr(bs, _) => {
                        o.push("bytes", J::Arr(bs.as_byte_str().iter().map(|b| J::n(*b)).collect()))
                    }
                    other => o.push("other", J::s(format!("{:?}", other))),
                }
            }
            ExprKind::NonHirLiteral { lit, .. } => {
                kind!("Lit");
                o.push("v", J::n(lit.to_uint(lit.size())));
            }
            ExprKind::ZstLiteral { .. } => {
                kind!("Zst");
                let f = self.fn_ref(e.ty);
                o.push("f", f);
            }
            ExprKind::NamedConst { def_id, args, .. } => {
                kind!("NamedConst");
                let d = self.def(*def_id);
                o.push("d", J::n(d));
                let a = self.gargs(args);
                o.push("a", a);
            }
            ExprKind::ConstParam { param, .. } => {
                kind!("ConstParam");
                o.push("name", J::s(param.name.to_string()));
            }
            ExprKind::ConstBlock { did, args } => {
                kind!("ConstBlock");
                let d = self.def(*did);
                o.push("d", J::n(d));
                let a = self.gargs(args);
                o.push("a", a);
            }
            ExprKind::StaticRef { def_id, .. } => {
                kind!("StaticRef");
                let d = self.def(*def_id);
                o.push("d", J::n(d));
            }
            other => {
                kind!("Other");
                o.push("dbg", J::s(format!("{:?}", other).chars().take(200).collect::<String>()));
            }
        }
        o
    }

    fn thir_body(&mut self, did: LocalDefId) -> J {
        let tcx = self.tcx;
        let Ok((steal, root)) = tcx.thir_body(did) else { return J::Null };
        let th: Thir<'tcx> = steal.borrow().clone();
        let mut params = vec![];
        for p in th.params.iter() {
            let t = self.ty(p.ty);
            let mut o = J::obj(vec![("ty", J::n(t))]);
            if let Some(pat) = &p.pat {
                let pp = self.pat(&th, pat);
                o.push("pat", pp);
            }
            o.push("self", jb(p.self_kind.is_some()));
            params.push(o);
        }
        let e = self.expr(&th, root);
        J::obj(vec![("params", J::Arr(params)), ("root", e)])
    }

    // ------------------------------------------------------------------ MIR
    fn place(&mut self, p: &mir::Place<'tcx>) -> J {
        let mut proj = vec![];
        for el in p.projection.iter() {
            proj.push(match el {
                mir::ProjectionElem::Deref => J::s("*"),
                mir::ProjectionElem::Field(f, t) => {
                    J::obj(vec![("f", J::n(f.as_u32())), ("ty", J::n(self.ty(t)))])
                }
                mir::ProjectionElem::Index(l) => J::obj(vec![("idx", J::n(l.as_u32()))]),
                mir::ProjectionElem::Downcast(name, v) => J::obj(vec![
                    ("down", J::n(v.as_u32())),
                    ("name", J::s(name.map(|s| s.to_string()).unwrap_or_default())),
                ]),
                mir::ProjectionElem::ConstantIndex { offset, min_length, from_end } => J::obj(vec![
                    ("cidx", J::n(offset)),
                    ("min", J::n(min_length)),
                    ("from_end", jb(from_end)),
                ]),
                mir::ProjectionElem::Subslice { from, to, from_end } => J::obj(vec![
                    ("sub", J::n(from)),
                    ("to", J::n(to)),
                    ("from_end", jb(from_end)),
                ]),
                other => J::obj(vec![("other", J::s(format!("{:?}", other)))]),
            });
        }
        J::obj(vec![("l", J::n(p.local.as_u32())), ("p", J::Arr(proj))])
    }

    fn mir_const(&mut self, c: &mir::ConstOperand<'tcx>) -> J {
        let tcx = self.tcx;
        let cty = c.const_.ty();
        let t = self.ty(cty);
        let mut o = J::obj(vec![
            ("ty", J::n(t)),
            ("s", J::s(with_no_trimmed_paths!(format!("{}", c.const_)))),
        ]);
        if let ty::FnDef(..) = cty.kind() {
            let f = self.fn_ref(cty);
            o.push("fn", f);
            return o;
        }
        // scalar value when cheaply available
        match c.const_ {
            mir::Const::Val(mir::ConstValue::Scalar(mir::interpret::Scalar::Int(si)), _) => {
                o.push("v", J::n(si.to_uint(si.size())));
                o.push("bytes", J::n(si.size().bytes()));
            }
            mir::Const::Ty(_, ct) => {
                if let ty::ConstKind::Value(v) = ct.kind() {
                    if let Some(leaf) = v.valtree.try_to_leaf() {
                        o.push("v", J::n(leaf.to_uint(leaf.size())));
                        o.push("bytes", J::n(leaf.size().bytes()));
                    }
                } else if let ty::ConstKind::Param(p) = ct.kind() {
                    o.push("param", J::s(p.name.to_string()));
                }
            }
            mir::Const::Unevaluated(uv, _) => {
                let d = self.def(uv.def);
                o.push("uneval", J::n(d));
                let a = self.gargs(uv.args);
                o.push("a", a);
                if let Some(pr) = uv.promoted {
                    o.push("promoted", J::n(pr.as_u32()));
                }
            }
            _ => {}
        }
        let _ = tcx;
        o
    }

    fn operand(&mut self, op: &mir::Operand<'tcx>) -> J {
        match op {
            mir::Operand::Copy(p) => J::obj(vec![("copy", self.place(p))]),
            mir::Operand::Move(p) => J::obj(vec![("move", self.place(p))]),
            mir::Operand::Constant(c) => J::obj(vec![("const", self.mir_const(c))]),
            #[allow(unreachable_patterns)]
            other => J::obj(vec![("other", J::s(format!("{:?}", other)))]),
        }
    }

    fn rvalue(&mut self, rv: &mir::Rvalue<'tcx>) -> J {
        match rv {
            mir::Rvalue::Use(op, _) => J::obj(vec![("k", J::s("Use")), ("op", self.operand(op))]),
            mir::Rvalue::Repeat(op, c) => J::obj(vec![
                ("k", J::s("Repeat")),
                ("op", self.operand(op)),
                ("count", self.konst(*c)),
            ]),
            mir::Rvalue::Ref(_, bk, p) => J::obj(vec![
                ("k", J::s("Ref")),
                ("m", jb(matches!(bk, mir::BorrowKind::Mut { .. }))),
                ("place", self.place(p)),
            ]),
            mir::Rvalue::RawPtr(k, p) => J::obj(vec![
                ("k", J::s("RawPtr")),
                ("m", jb(matches!(k, mir::RawPtrKind::Mut))),
                ("place", self.place(p)),
            ]),
            mir::Rvalue::Cast(ck, op, t) => J::obj(vec![
                ("k", J::s("Cast")),
                ("cast", J::s(format!("{:?}", ck))),
                ("op", self.operand(op)),
                ("ty", J::n(self.ty(*t))),
            ]),
            mir::Rvalue::BinaryOp(bop, ops) => J::obj(vec![
                ("k", J::s("BinaryOp")),
                ("op", J::s(format!("{:?}", bop))),
                ("l", self.operand(&ops.0)),
                ("r", self.operand(&ops.1)),
            ]),
            mir::Rvalue::UnaryOp(uop, op) => J::obj(vec![
                ("k", J::s("UnaryOp")),
                ("op", J::s(format!("{:?}", uop))),
                ("e", self.operand(op)),
            ]),
            mir::Rvalue::Discriminant(p) => {
                J::obj(vec![("k", J::s("Discriminant")), ("place", self.place(p))])
            }
            mir::Rvalue::Aggregate(ak, ops) => {
                let mut o = J::obj(vec![("k", J::s("Aggregate"))]);
                match &**ak {
                    mir::AggregateKind::Adt(d, v, _args, _, _) => {
                        let di = self.def(*d);
                        o.push("adt", J::n(di));
                        o.push("variant", J::n(v.as_u32()));
                        let adt = self.tcx.adt_def(*d);
                        o.push("vname", J::s(adt.variant(*v).name.to_string()));
                    }
                    mir::AggregateKind::Tuple => o.push("tuple", jb(true)),
                    mir::AggregateKind::Array(t) => {
                        let ti = self.ty(*t);
                        o.push("array", J::n(ti));
                    }
                    mir::AggregateKind::Closure(d, _) => {
                        let di = self.def(*d);
                        o.push("closure", J::n(di));
                    }
                    other => o.push("other", J::s(format!("{:?}", other))),
                }
                let v: Vec<J> = ops.iter().map(|x| self.operand(x)).collect();
                o.push("ops", J::Arr(v));
                o
            }
            mir::Rvalue::CopyForDeref(p) => {
                J::obj(vec![("k", J::s("CopyForDeref")), ("place", self.place(p))])
            }
            other => J::obj(vec![("k", J::s("Other")), ("dbg", J::s(format!("{:?}", other)))]),
        }
    }

    fn mir_body_json(&mut self, body: &mir::Body<'tcx>) -> J {
        let mut locals = vec![];
        for (_l, d) in body.local_decls.iter_enumerated() {
            let t = self.ty(d.ty);
            let mut o = J::obj(vec![("ty", J::n(t)), ("m", jb(d.mutability.is_mut()))]);
            locals.push(o);
        }
        let mut names = vec![];
        for vdi in body.var_debug_info.iter() {
            if let mir::VarDebugInfoContents::Place(p) = &vdi.value {
                names.push(J::obj(vec![
                    ("name", J::s(vdi.name.to_string())),
                    ("place", self.place(p)),
                ]));
            }
        }
        let mut blocks = vec![];
        for (_bb, data) in body.basic_blocks.iter_enumerated() {
            let mut stmts = vec![];
            for st in data.statements.iter() {
                match &st.kind {
                    mir::StatementKind::Assign(b) => {
                        let (p, rv) = &**b;
                        let pl = self.place(p);
                        let r = self.rvalue(rv);
                        let sp = self.span(st.source_info.span);
                        stmts.push(J::obj(vec![
                            ("k", J::s("Assign")),
                            ("place", pl),
                            ("rv", r),
                            ("sp", sp),
                        ]));
                    }
                    mir::StatementKind::SetDiscriminant { place, variant_index } => {
                        stmts.push(J::obj(vec![
                            ("k", J::s("SetDiscriminant")),
                            ("place", self.place(place)),
                            ("variant", J::n(variant_index.as_u32())),
                        ]));
                    }
                    mir::StatementKind::Intrinsic(i) => {
                        stmts.push(J::obj(vec![
                            ("k", J::s("Intrinsic")),
                            ("dbg", J::s(format!("{:?}", i))),
                        ]));
                    }
                    mir::StatementKind::StorageDead(l) => {
                        stmts.push(J::obj(vec![("k", J::s("StorageDead")), ("l", J::n(l.as_u32()))]));
                    }
                    mir::StatementKind::StorageLive(l) => {
                        stmts.push(J::obj(vec![("k", J::s("StorageLive")), ("l", J::n(l.as_u32()))]));
                    }
                    _ => {}
                }
            }
            let term = data.terminator();
            let sp = self.span(term.source_info.span);
            let mut t = J::obj(vec![("sp", sp)]);
            let unwind_j = |u: &mir::UnwindAction| match u {
                mir::UnwindAction::Cleanup(b) => J::n(b.as_u32()),
                mir::UnwindAction::Continue => J::s("continue"),
                mir::UnwindAction::Unreachable => J::s("unreachable"),
                mir::UnwindAction::Terminate(_) => J::s("terminate"),
            };
            match &term.kind {
                mir::TerminatorKind::Goto { target } => {
                    t.push("k", J::s("Goto"));
                    t.push("target", J::n(target.as_u32()));
                }
                mir::TerminatorKind::SwitchInt { discr, targets } => {
                    t.push("k", J::s("SwitchInt"));
                    let d = self.operand(discr);
                    t.push("discr", d);
                    let mut v = vec![];
                    for (val, bb) in targets.iter() {
                        v.push(J::Arr(vec![J::n(val), J::n(bb.as_u32())]));
                    }
                    t.push("targets", J::Arr(v));
                    t.push("otherwise", J::n(targets.otherwise().as_u32()));
                }
                mir::TerminatorKind::UnwindResume => t.push("k", J::s("Resume")),
                mir::TerminatorKind::UnwindTerminate(_) => t.push("k", J::s("Terminate")),
                mir::TerminatorKind::Return => t.push("k", J::s("Return")),
                mir::TerminatorKind::Unreachable => t.push("k", J::s("Unreachable")),
                mir::TerminatorKind::Drop { place, target, unwind, .. } => {
                    t.push("k", J::s("Drop"));
                    let p = self.place(place);
                    t.push("place", p);
                    t.push("target", J::n(target.as_u32()));
                    t.push("unwind", unwind_j(unwind));
                }
                mir::TerminatorKind::Call { func, args, destination, target, unwind, fn_span, .. } => {
                    t.push("k", J::s("Call"));
                    let f = self.operand(func);
                    t.push("func", f);
                    let a: Vec<J> = args.iter().map(|x| self.operand(&x.node)).collect();
                    t.push("args", J::Arr(a));
                    let d = self.place(destination);
                    t.push("dest", d);
                    if let Some(tg) = target {
                        t.push("target", J::n(tg.as_u32()));
                    }
                    t.push("unwind", unwind_j(unwind));
                    let fs = self.span(*fn_span);
                    t.push("fn_sp", fs);
                }
                mir::TerminatorKind::Assert { cond, expected, msg, target, unwind } => {
                    t.push("k", J::s("Assert"));
                    let c = self.operand(cond);
                    t.push("cond", c);
                    t.push("expected", jb(*expected));
                    let (mk, ops): (String, Vec<J>) = match &**msg {
                        mir::AssertKind::Overflow(op, a, b) => (
                            format!("Overflow({:?})", op),
                            vec![self.operand(a), self.operand(b)],
                        ),
                        mir::AssertKind::BoundsCheck { len, index } => (
                            "BoundsCheck".to_string(),
                            vec![self.operand(len), self.operand(index)],
                        ),
                        mir::AssertKind::OverflowNeg(a) => ("OverflowNeg".to_string(), vec![self.operand(a)]),
                        mir::AssertKind::DivisionByZero(a) => {
                            ("DivisionByZero".to_string(), vec![self.operand(a)])
                        }
                        mir::AssertKind::RemainderByZero(a) => {
                            ("RemainderByZero".to_string(), vec![self.operand(a)])
                        }
                        other => (format!("{:?}", other).chars().take(60).collect(), vec![]),
                    };
                    t.push("msg", J::s(mk));
                    t.push("ops", J::Arr(ops));
                    t.push("target", J::n(target.as_u32()));
                    t.push("unwind", unwind_j(unwind));
                }
                mir::TerminatorKind::FalseEdge { real_target, .. } => {
                    t.push("k", J::s("Goto"));
                    t.push("target", J::n(real_target.as_u32()));
                }
                mir::TerminatorKind::FalseUnwind { real_target, .. } => {
                    t.push("k", J::s("Goto"));
                    t.push("target", J::n(real_target.as_u32()));
                }
                other => {
                    t.push("k", J::s("Other"));
                    t.push("dbg", J::s(format!("{:?}", other).chars().take(200).collect::<String>()));
                }
            }
            blocks.push(J::obj(vec![
                ("stmts", J::Arr(stmts)),
                ("term", t),
                ("cleanup", jb(data.is_cleanup)),
            ]));
        }
        J::obj(vec![
            ("arg_count", J::n(body.arg_count)),
            ("locals", J::Arr(locals)),
            ("names", J::Arr(names)),
            ("blocks", J::Arr(blocks)),
        ])
    }

    fn mir_for(&mut self, did: LocalDefId) -> J {
        let tcx = self.tcx;
        if !tcx.is_mir_available(did.to_def_id()) {
            return J::Null;
        }
        let kind = tcx.def_kind(did);
        let body: &mir::Body<'tcx> = match kind {
            DefKind::Fn | DefKind::AssocFn | DefKind::Closure => tcx.optimized_mir(did.to_def_id()),
            DefKind::Const { .. } | DefKind::AssocConst { .. } | DefKind::AnonConst | DefKind::InlineConst | DefKind::Static { .. } => {
                tcx.mir_for_ctfe(did.to_def_id())
            }
            _ => return J::Null,
        };
        let mut o = self.mir_body_json(body);
        // promoted constants (e.g. `&0_u8` tag arguments)
        if matches!(kind, DefKind::Fn | DefKind::AssocFn | DefKind::Closure) {
            let promoted = tcx.promoted_mir(did.to_def_id());
            let mut v = vec![];
            for p in promoted.iter() {
                v.push(self.mir_body_json(p));
            }
            o.push("promoted", J::Arr(v));
        }
        o
    }

    // ------------------------------------------------------------------ items
    fn generics_json(&mut self, d: DefId) -> J {
        let tcx = self.tcx;
        let g = tcx.generics_of(d);
        let mut v = vec![];
        let mut cur = Some(g);
        let mut chain = vec![];
        while let Some(gg) = cur {
            chain.push(gg);
            cur = gg.parent.map(|p| tcx.generics_of(p));
        }
        chain.reverse();
        for gg in chain {
            for p in gg.own_params.iter() {
                let kind = match p.kind {
                    ty::GenericParamDefKind::Lifetime => "lifetime",
                    ty::GenericParamDefKind::Type { .. } => "type",
                    ty::GenericParamDefKind::Const { .. } => "const",
                };
                let mut o = J::obj(vec![
                    ("name", J::s(p.name.to_string())),
                    ("kind", J::s(kind)),
                    ("index", J::n(p.index)),
                ]);
                if let ty::GenericParamDefKind::Type { has_default, synthetic } = p.kind {
                    o.push("has_default", jb(has_default));
                    o.push("synthetic", jb(synthetic));
                }
                if let ty::GenericParamDefKind::Const { has_default, .. } = p.kind {
                    o.push("has_default", jb(has_default));
                }
                v.push(o);
            }
        }
        J::Arr(v)
    }

    fn predicates_json(&mut self, d: DefId) -> J {
        let tcx = self.tcx;
        let preds = tcx.predicates_of(d).instantiate_identity(tcx);
        let mut v = vec![];
        for (clause, _sp) in preds.into_iter() {
            let clause = clause.skip_norm_wip();
            let mut o = J::obj(vec![("s", J::s(with_no_trimmed_paths!(format!("{}", clause))))]);
            if let Some(tp) = clause.as_trait_clause() {
                let tp = tp.skip_binder();
                let td = self.def(tp.trait_ref.def_id);
                o.push("trait", J::n(td));
                let a = self.gargs(tp.trait_ref.args);
                o.push("a", a);
            } else if let Some(pp) = clause.as_projection_clause() {
                let pp = pp.skip_binder();
                let pd = self.def(pp.projection_term.def_id());
                o.push("proj", J::n(pd));
                let a = self.gargs(pp.projection_term.args);
                o.push("a", a);
                if let Some(t) = pp.term.as_type() {
                    let ti = self.ty(t);
                    o.push("term", J::n(ti));
                }
            }
            v.push(o);
        }
        J::Arr(v)
    }

    fn scalar_of_const(&mut self, d: DefId) -> J {
        let tcx = self.tcx;
        let g = tcx.generics_of(d);
        if g.count() != 0 {
            return J::Null;
        }
        match tcx.const_eval_poly(d) {
            Ok(mir::ConstValue::Scalar(mir::interpret::Scalar::Int(si))) => J::obj(vec![
                ("v", J::n(si.to_uint(si.size()))),
                ("bytes", J::n(si.size().bytes())),
            ]),
            Ok(other) => J::obj(vec![("dbg", J::s(format!("{:?}", other).chars().take(120).collect::<String>()))]),
            Err(_) => J::Null,
        }
    }

    fn layout_json(&mut self, t: Ty<'tcx>) -> J {
        let tcx = self.tcx;
        if t.has_param() || t.has_infer() || t.has_escaping_bound_vars() || t.has_aliases() && false {
            return J::Null;
        }
        let env = TypingEnv::fully_monomorphized();
        let t = tcx.erase_and_anonymize_regions(t);
        let Ok(t) = tcx.try_normalize_erasing_regions(env, rustc_middle::ty::Unnormalized::new_wip(t)) else {
            return J::Null;
        };
        if t.has_param() || t.has_aliases() {
            return J::Null;
        }
        let Ok(l) = tcx.layout_of(env.as_query_input(t)) else { return J::Null };
        let mut o = J::obj(vec![
            ("size", J::n(l.size.bytes())),
            ("align", J::n(l.align.abi.bytes())),
            ("norm", J::n(self.ty(t))),
        ]);
        // field offsets for single-variant aggregates
        match t.kind() {
            ty::Adt(adt, args) if adt.is_struct() => {
                let mut fs = vec![];
                for (i, f) in adt.non_enum_variant().fields.iter().enumerate() {
                    let ft = f.ty(tcx, args);
                    let fti = self.ty(ft);
                    fs.push(J::obj(vec![
                        ("name", J::s(f.name.to_string())),
                        ("ty", J::n(fti)),
                        ("off", J::n(l.fields.offset(i).bytes())),
                    ]));
                }
                o.push("fields", J::Arr(fs));
            }
            ty::Tuple(ts) => {
                let mut fs = vec![];
                for (i, ft) in ts.iter().enumerate() {
                    let fti = self.ty(ft);
                    fs.push(J::obj(vec![
                        ("ty", J::n(fti)),
                        ("off", J::n(l.fields.offset(i).bytes())),
                    ]));
                }
                o.push("fields", J::Arr(fs));
            }
            _ => {}
        }
        o
    }

    fn adt_json(&mut self, d: DefId) -> J {
        let tcx = self.tcx;
        let adt = tcx.adt_def(d);
        let di = self.def(d);
        let mut o = J::obj(vec![("d", J::n(di))]);
        o.push("kind", J::s(if adt.is_enum() { "enum" } else if adt.is_union() { "union" } else { "struct" }));
        let r = adt.repr();
        o.push("repr_c", jb(r.c()));
        o.push("repr_transparent", jb(r.transparent()));
        o.push("repr_packed", jb(r.packed()));
        o.push("repr_align", J::n(r.align.map(|a| a.bytes()).unwrap_or(0)));
        o.push("repr_int", J::s(r.int.map(|i| format!("{:?}", i)).unwrap_or_default()));
        let g = self.generics_json(d);
        o.push("generics", g);
        let mut vs = vec![];
        for (vi, v) in adt.variants().iter_enumerated() {
            let mut fs = vec![];
            for f in v.fields.iter() {
                let ft = tcx.type_of(f.did).instantiate_identity().skip_norm_wip();
                let fti = self.ty(ft);
                fs.push(J::obj(vec![
                    ("name", J::s(f.name.to_string())),
                    ("ty", J::n(fti)),
                    ("vis", J::s(format!("{:?}", f.vis))),
                ]));
            }
            vs.push(J::obj(vec![
                ("name", J::s(v.name.to_string())),
                ("index", J::n(vi.as_u32())),
                ("ctor", J::s(format!("{:?}", v.ctor_kind()))),
                ("fields", J::Arr(fs)),
            ]));
        }
        o.push("variants", J::Arr(vs));
        o
    }

    fn run(&mut self, name: &str) -> J {
        let tcx = self.tcx;
        // 1. THIR of every body, before anything steals it
        let owners: Vec<LocalDefId> = tcx
            .hir_body_owners()
            .filter(|d| !matches!(tcx.def_kind(d.to_def_id()), DefKind::AnonConst | DefKind::InlineConst))
            .collect();
        let mut thirs: Vec<(LocalDefId, J)> = vec![];
        for did in owners.iter() {
            self.owner = Some(*did);
            let j = self.thir_body(*did);
            thirs.push((*did, j));
        }
        self.owner = None;
        // 2. make sure analysis (borrowck etc.) is done, then MIR
        let _ = tcx.ensure_ok().analysis(());
        let mut bodies = vec![];
        for (did, th) in thirs.into_iter() {
            self.owner = Some(did);
            let d = did.to_def_id();
            let di = self.def(d);
            let kind = tcx.def_kind(d);
            let mut o = J::obj(vec![("d", J::n(di)), ("kind", J::s(format!("{:?}", kind)))]);
            let sp = self.span(tcx.def_span(d));
            o.push("sp", sp);
            o.push("thir", th);
            let m = self.mir_for(did);
            o.push("mir", m);
            if matches!(kind, DefKind::Fn | DefKind::AssocFn) {
                let sig = tcx.fn_sig(d).instantiate_identity().skip_norm_wip().skip_binder();
                let ins: Vec<J> = sig.inputs().iter().map(|t| J::n(self.ty(*t))).collect();
                o.push("inputs", J::Arr(ins));
                let out = self.ty(sig.output());
                o.push("output", J::n(out));
                let g = self.generics_json(d);
                o.push("generics", g);
                let p = self.predicates_json(d);
                o.push("preds", p);
                o.push("vis", J::s(format!("{:?}", tcx.visibility(d))));
                o.push("unsafe", jb(sig.safety().is_unsafe()));
            }
            if matches!(kind, DefKind::Const { .. } | DefKind::AssocConst { .. }) {
                let t = tcx.type_of(d).instantiate_identity().skip_norm_wip();
                let ti = self.ty(t);
                o.push("ty", J::n(ti));
                let v = self.scalar_of_const(d);
                o.push("value", v);
            }
            bodies.push(o);
        }
        self.owner = None;
        // 3. items: adts, impls, traits, aliases
        let mut adts = vec![];
        let mut impls = vec![];
        let mut traits = vec![];
        let mut aliases = vec![];
        let mut fns_no_body = vec![];
        for id in tcx.hir_crate_items(()).definitions() {
            let d = id.to_def_id();
            match tcx.def_kind(d) {
                DefKind::Struct | DefKind::Enum | DefKind::Union => {
                    let a = self.adt_json(d);
                    adts.push(a);
                }
                DefKind::Impl { of_trait } => {
                    let di = self.def(d);
                    let mut o = J::obj(vec![("d", J::n(di))]);
                    let sp = self.span(tcx.def_span(d));
                    o.push("sp", sp);
                    let st = tcx.type_of(d).instantiate_identity().skip_norm_wip();
                    let sti = self.ty(st);
                    o.push("self", J::n(sti));
                    if of_trait {
                        let tr = tcx.impl_trait_ref(d).instantiate_identity().skip_norm_wip();
                        let td = self.def(tr.def_id);
                        o.push("trait", J::n(td));
                        let a = self.gargs(tr.args);
                        o.push("trait_args", a);
                        o.push("unsafe", jb(tcx.trait_def(tr.def_id).safety.is_unsafe()));
                        o.push("negative", jb(matches!(tcx.impl_polarity(d), ty::ImplPolarity::Negative)));
                    }
                    let g = self.generics_json(d);
                    o.push("generics", g);
                    let p = self.predicates_json(d);
                    o.push("preds", p);
                    o.push("derived", jb(tcx.is_automatically_derived(d)));
                    let mut items = vec![];
                    for ai in tcx.associated_items(d).in_definition_order() {
                        let aid = self.def(ai.def_id);
                        let mut io = J::obj(vec![
                            ("d", J::n(aid)),
                            ("name", J::s(ai.name().to_string())),
                            ("kind", J::s(format!("{:?}", ai.kind).split(|c| c == ' ' || c == '{' || c == '(').next().unwrap_or("").to_string())),
                        ]);
                        if let ty::AssocKind::Type { .. } = ai.kind {
                            let t = tcx.type_of(ai.def_id).instantiate_identity().skip_norm_wip();
                            let ti = self.ty(t);
                            io.push("ty", J::n(ti));
                        }
                        if let Some(ti) = ai.trait_item_def_id() {
                            let t = self.def(ti);
                            io.push("trait_item", J::n(t));
                        }
                        items.push(io);
                    }
                    o.push("items", J::Arr(items));
                    impls.push(o);
                }
                DefKind::Trait => {
                    let di = self.def(d);
                    let mut o = J::obj(vec![("d", J::n(di))]);
                    let g = self.generics_json(d);
                    o.push("generics", g);
                    // super-predicates (for ZeroCopy: Copy + 'static + ...)
                    let sp = tcx.explicit_super_predicates_of(d);
                    let mut sv = vec![];
                    for (cl, _) in sp.iter_identity_copied().map(|x| x.skip_norm_wip()) {
                        let mut so = J::obj(vec![("s", J::s(with_no_trimmed_paths!(format!("{}", cl))))]);
                        if let Some(tp) = cl.as_trait_clause() {
                            let td = self.def(tp.skip_binder().trait_ref.def_id);
                            so.push("trait", J::n(td));
                        }
                        sv.push(so);
                    }
                    o.push("supers", J::Arr(sv));
                    let mut items = vec![];
                    for ai in tcx.associated_items(d).in_definition_order() {
                        let aid = self.def(ai.def_id);
                        items.push(J::obj(vec![
                            ("d", J::n(aid)),
                            ("name", J::s(ai.name().to_string())),
                            ("kind", J::s(format!("{:?}", ai.kind).split(|c| c == ' ' || c == '{' || c == '(').next().unwrap_or("").to_string())),
                            ("has_default", jb(ai.defaultness(tcx).has_value())),
                        ]));
                    }
                    o.push("items", J::Arr(items));
                    traits.push(o);
                }
                DefKind::TyAlias => {
                    let di = self.def(d);
                    let g = tcx.generics_of(d);
                    let t = tcx.type_of(d).instantiate_identity().skip_norm_wip();
                    let ti = self.ty(t);
                    let mut o = J::obj(vec![("d", J::n(di)), ("ty", J::n(ti)), ("nparams", J::n(g.count()))]);
                    if g.count() == 0 {
                        let l = self.layout_json(t);
                        o.push("layout", l);
                    }
                    aliases.push(o);
                }
                DefKind::Fn | DefKind::AssocFn => {
                    // trait methods without default body: record signature only
                    if tcx.hir_maybe_body_owned_by(id).is_none() {
                        let di = self.def(d);
                        fns_no_body.push(J::n(di));
                    }
                }
                _ => {}
            }
        }
        // 4. layouts of every closed type met so far (fixpoint: new types may appear)
        let mut layouts = vec![];
        let mut i = 0;
        while i < self.ty_list.len() {
            let t = self.ty_list[i];
            let closed = !t.has_param() && !t.has_infer() && !t.has_escaping_bound_vars() && !t.has_bound_vars();
            let interesting = matches!(
                t.kind(),
                ty::Adt(..) | ty::Tuple(..) | ty::Array(..) | ty::Bool | ty::Char | ty::Int(_) | ty::Uint(_) | ty::Float(_) | ty::Alias(..)
            );
            if closed && interesting {
                let l = self.layout_json(t);
                if !matches!(l, J::Null) {
                    layouts.push(J::obj(vec![("ty", J::n(i)), ("l", l)]));
                }
            }
            i += 1;
            if i > 200000 {
                break;
            }
        }
        let cfgs: Vec<J> = tcx
            .sess
            .config
            .iter()
            .map(|(k, v)| J::s(match v {
                Some(v) => format!("{}={}", k, v),
                None => k.to_string(),
            }))
            .collect();
        J::obj(vec![
            ("crate", J::s(name)),
            ("cfg", J::Arr(cfgs)),
            ("debug_assertions", jb(tcx.sess.opts.debug_assertions)),
            ("files", J::Arr(self.files.iter().map(|f| J::s(f.clone())).collect())),
            ("tys", J::Arr(std::mem::take(&mut self.tys))),
            ("defs", J::Arr(std::mem::take(&mut self.defs))),
            ("bodies", J::Arr(bodies)),
            ("adts", J::Arr(adts)),
            ("impls", J::Arr(impls)),
            ("traits", J::Arr(traits)),
            ("aliases", J::Arr(aliases)),
            ("fns_no_body", J::Arr(fns_no_body)),
            ("layouts", J::Arr(layouts)),
        ])
    }
}
