//! Minimal JSON value + writer (the exporter has no cargo dependencies).

use std::fmt::Write;

#[derive(Clone, Debug)]
pub enum J {
    Null,
    Bool(bool),
    Num(i128),
    Str(String),
    Arr(Vec<J>),
    Obj(Vec<(&'static str, J)>),
}

impl J {
    pub fn s<T: Into<String>>(s: T) -> J {
        J::Str(s.into())
    }
    pub fn n<T: TryInto<i128>>(n: T) -> J {
        match n.try_into() {
            Ok(v) => J::Num(v),
            Err(_) => J::Null,
        }
    }
    pub fn obj(v: Vec<(&'static str, J)>) -> J {
        J::Obj(v)
    }
    pub fn opt(o: Option<J>) -> J {
        o.unwrap_or(J::Null)
    }
    pub fn push(&mut self, k: &'static str, v: J) {
        if let J::Obj(o) = self {
            o.push((k, v));
        }
    }
    pub fn write(&self, out: &mut String) {
        match self {
            J::Null => out.push_str("null"),
            J::Bool(b) => out.push_str(if *b { "true" } else { "false" }),
            J::Num(n) => {
                let _ = write!(out, "{}", n);
            }
            J::Str(s) => write_str(s, out),
            J::Arr(a) => {
                out.push('[');
                for (i, x) in a.iter().enumerate() {
                    if i > 0 {
                        out.push(',');
                    }
                    x.write(out);
                }
                out.push(']');
            }
            J::Obj(o) => {
                out.push('{');
                for (i, (k, v)) in o.iter().enumerate() {
                    if i > 0 {
                        out.push(',');
                    }
                    write_str(k, out);
                    out.push(':');
                    v.write(out);
                }
                out.push('}');
            }
        }
    }
}

fn write_str(s: &str, out: &mut String) {
    out.push('"');
    for c in s.chars() {
        match c {
            '"' => out.push_str("\\\""),
            '\\' => out.push_str("\\\\"),
            '\n' => out.push_str("\\n"),
            '\r' => out.push_str("\\r"),
            '\t' => out.push_str("\\t"),
            c if (c as u32) < 0x20 => {
                let _ = write!(out, "\\u{:04x}", c as u32);
            }
            c => out.push(c),
        }
    }
    out.push('"');
}
