#!/bin/bash
# usage: seed_eval.sh <Cxx> [name]   -- confirm a seeded change in its scratch worktree /tmp/seed/<Cxx>, run all checks on it,
# and store it under /verif/seeded/<name>/
P=$1; NAME=${2:-$1}; BASE=${SEEDBASE:-/tmp/seed}; W=$BASE/$P; S=$W/SEED; OUT=/verif/seeded/$NAME
export CARGO_NET_OFFLINE=true
set -u
cd $W || exit 2
[ -f $S/patch.diff ] || { echo "no patch"; exit 2; }
# normalise: start from a clean tree + demo
git checkout -q -- .
git apply --check $S/patch.diff || { echo "patch does not apply"; exit 2; }
run_demo() {
  if [ -d $S/demo ]; then (cd $S/demo && cargo test --offline 2>&1 | grep -E "^test result|^error" | awk '/^test result/ {p+=$4; f+=$6} /^error/ {e=e" "$0} END {print "passed="p" failed="f e}')
  else cp $S/seed_demo.rs $W/epserde/tests/seed_demo.rs; (cd $W && cargo test --offline -p epserde --test seed_demo 2>&1 | grep -E "^test result|^error" | head -3); fi
}
echo "== demo on the ORIGINAL code (must pass)"; R0=$(run_demo); echo "$R0"
git apply $S/patch.diff
echo "== demo WITH the change (must fail)"; R1=$(run_demo); echo "$R1"
rm -f $W/epserde/tests/seed_demo.rs
echo "== existing suite WITH the change (must pass)"
R2=$(cd $W && cargo test --workspace --no-fail-fast --offline 2>&1 | grep -E "^test result" | awk '{p+=$4; f+=$6} END {print "passed="p" failed="f}'); echo "$R2"
echo "== checks on the changed tree"
FIRED=""
for c in $(python3 -c "import json;print(' '.join(x['property_id'] for x in json.load(open('/verif/MANIFEST.json'))['checks']))"); do
  OUTP=$(cd /verif && REPO=$W ./check $c 2>/dev/null); RC=$?
  if [ $RC -eq 1 ]; then FIRED="$FIRED $c"; echo "$OUTP" | grep -A3 VIOLATION | head -4; elif [ $RC -ne 0 ]; then echo "$c BROKEN rc=$RC"; fi
done
echo "FIRED:$FIRED"
mkdir -p $OUT; cp $S/patch.diff $OUT/; [ -f $S/seed_demo.rs ] && cp $S/seed_demo.rs $OUT/; [ -d $S/demo ] && { rm -rf $OUT/demo; mkdir -p $OUT/demo; (cd $S/demo && tar cf - --exclude target . ) | (cd $OUT/demo && tar xf -); }
python3 - "$P" "$NAME" "$R0" "$R1" "$R2" "$FIRED" "$BASE" <<'PY'
import json,sys,os
P,NAME,R0,R1,R2,FIRED,BASE=sys.argv[1:8]
meta={}
try: meta=json.load(open('%s/%s/SEED/meta.json'%(BASE,P)))
except Exception as e: meta={"note":"agent meta unreadable: %s"%e}
out={"property":P,"summary":meta.get("summary"),"needs":meta.get("needs"),"files":meta.get("files"),
 "confirmed":{"demo_on_original":R0.strip(),"demo_with_change":R1.strip(),"existing_suite_with_change":R2.strip()},
 "checks_fired":FIRED.split(),"agent_commands":meta.get("commands")}
json.dump(out,open('/verif/seeded/%s/meta.json'%NAME,'w'),indent=1)
print(json.dumps(out["confirmed"]), "fired", out["checks_fired"])
PY
git -C $W checkout -q -- . 
