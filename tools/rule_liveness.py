#!/usr/bin/env python3
"""Which rule ids has something ever made fire?  (Not a registered check.)
Sources: selftest/last_run.json (written by a full `selftest/run.py`), seeded/*/meta.json ("rules_fired",
written by tools/seed_recheck.py), known_findings.json (keys of known and fixed findings).
Declared rules: the ids each check writes into evidence/<id>.json (coverage.rules) plus the rule ids that
appear in violation keys.  Output: per check, declared rule ids never seen firing."""
import json, os, glob, re, sys
V = os.path.dirname(os.path.dirname(os.path.abspath(__file__)))
fired = {}
try:
    for k, v in json.load(open(os.path.join(V, "selftest", "last_run.json")))["rules_fired"].items():
        fired.setdefault(k, set()).update("selftest:" + x for x in v)
except Exception as ex:
    print("no selftest/last_run.json (%s)" % ex)
for p in glob.glob(os.path.join(V, "seeded", "*", "meta.json")):
    m = json.load(open(p))
    for c, rs in (m.get("rules_fired") or {}).items():
        for r in rs:
            fired.setdefault("%s:%s" % (c, r), set()).add("seed:" + os.path.basename(os.path.dirname(p)))
for k in json.load(open(os.path.join(V, "known_findings.json")))["findings"]:
    parts = k["key"].split(":")
    fired.setdefault("%s:%s" % (parts[0], parts[1]), set()).add("finding:" + k["status"])
EXEMPT = json.load(open(os.path.join(V, "selftest", "liveness_exempt.json"))) if os.path.exists(os.path.join(V, "selftest", "liveness_exempt.json")) else {}
dead = 0
for p in sorted(glob.glob(os.path.join(V, "evidence", "C??.json"))):
    e = json.load(open(p))
    c = e["property_id"]
    for r in e["coverage"].get("rules", []):
        for rid in re.split(r"\s*/\s*", r["id"]):
            rid = rid.strip()
            key = "%s:%s" % (c, rid)
            hits = set()
            for k, v in fired.items():
                kc, kr = k.split(":", 1)
                if kc == c and (kr == rid or kr.startswith(rid.rstrip("*")) or rid.startswith(kr)):
                    hits |= v
            if not hits:
                if key in EXEMPT:
                    print("%-22s exempt: %s" % (key, EXEMPT[key]))
                else:
                    dead += 1
                    print("%-22s NEVER FIRED" % key)
print("%d declared rule ids without a firing witness" % dead)
sys.exit(1 if dead else 0)
