#!/bin/bash
# usage: run_facts.sh <cargo-dir> <out-dir> <target-dir> <crates> [cargo args...]
set -e
DIR=$1; OUT=$2; TGT=$3; CRATES=$4; shift 4
mkdir -p "$OUT"
cd "$DIR"
LD_LIBRARY_PATH=$(rustc +nightly --print sysroot)/lib \
RUSTFLAGS="-Zmir-opt-level=0 -Awarnings" \
RUSTC_WORKSPACE_WRAPPER=/verif/tools/epsfacts/target/release/epsfacts \
EPSFACTS_CRATES=$CRATES EPSFACTS_OUT=$OUT CARGO_TARGET_DIR=$TGT CARGO_NET_OFFLINE=true \
cargo +nightly check --offline "$@"
