#!/bin/bash
# usage: refactor_eval.sh <worktree> <name>  -- run every registered check against a behaviour-preserving refactor
# (worktree with the change applied, REFACTOR/patch.diff inside); report which checks raise an alarm; store the patch
# under selftest/refactors/<name>/ so that the self-test replays it. Not a registered check.
W=$1; NAME=$2
export CARGO_NET_OFFLINE=true
cd /verif
R2=$(cd $W && cargo test --workspace --no-fail-fast --offline 2>&1 | grep -E "^test result" | awk '{p+=$4; f+=$6} END {print "passed="p" failed="f}'); echo "suite: $R2"
FIRED=""
for c in $(python3 -c "import json;print(' '.join(x['property_id'] for x in json.load(open('/verif/MANIFEST.json'))['checks']))"); do
  OUTP=$(REPO=$W ./check $c 2>/dev/null); RC=$?
  if [ $RC -eq 1 ]; then FIRED="$FIRED $c"; echo "$OUTP" | grep -A4 VIOLATION | cut -c1-600 | head -6; elif [ $RC -ne 0 ]; then echo "$c BROKEN rc=$RC"; REPO=$W ./check $c 2>&1 | tail -5; fi
done
echo "ALARMS:$FIRED"
mkdir -p selftest/refactors/$NAME; cp $W/REFACTOR/patch.diff selftest/refactors/$NAME/; cp $W/REFACTOR/meta.json selftest/refactors/$NAME/ 2>/dev/null
