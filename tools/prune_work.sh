#!/bin/bash
# Drop the caches of trees other than /repo's current one (self-test and seed runs analyse scratch copies, each of
# which leaves its own facts, witness crates and build outputs under .work/). Not a registered check.
W=/verif/.work
SZ=$(du -s --block-size=1G $W 2>/dev/null | cut -f1)
if [ "${SZ:-0}" -gt "${1:-12}" ]; then
  rm -rf $W/facts $W/witness $W/tgt/witness $W/tgt/probehost
  echo "pruned $W (was ${SZ}G)"
fi
